"""C14 — DOE samples honour bounds, types, sample count and seed.

Three parts, all executed on every run:

* **Correspondence.**  Every DOE algorithm of ``DOELibraryFactory`` is run on generated bounded
  design spaces (dimension 1-4, asymmetric bounds, mixed float/integer variables, optional current
  value, integer normalisation initially on or off) through ``compute_doe`` (twice + once with
  ``unit_sampling``) and through ``execute`` on a problem.  The *real* unit samples are piped to
  the Lean model (``Driver/C14.lean``): the model's ``computeDoe`` / ``preRun`` must reproduce the
  real samples, the state of the integer-normalisation switch, the seed counter of the library,
  ``lib.unit_samples`` / ``lib.samples`` and the database keys.  The designs GEMSEO computes itself
  (diagonal, OAT, Morris, pyDOE/OpenTURNS full-factorial post-processing, stratified OpenTURNS
  designs, centred LHS, the count rules, the full-factorial level computation, the ``Seeder``) are
  compared with the model's own output.
* **Oracle** (independent, from the property text, ``fractions.Fraction``): points inside the
  bounds, integer components integral, column blocks in the variable order, documented counts
  (exactly ``n`` / closed form ``<= n``), repeat equality, samples = affine image (+ half-even
  rounding) of the unit samples, database keys = samples in generation order.
* **Failing-input search** around any disagreement (other ``n``, other seed, switch flipped,
  variables dropped, default options), then a correspondence violation if nothing fails.

Streams: *exact* (dyadic bounds, power-of-two ranges: float results compared exactly whenever the
unit samples have few bits), *rounded* (arbitrary decimal bounds; 2^-40 relative guard, integer
components may differ by one only when the exact pre-rounding value is within 2^-40 of a tie).
The out-of-scope probe stream (pyDOE response-surface designs, invalid requests, unbounded spaces,
OAT steps > 1/2, error paths and the switch after an exception) never raises a violation.
"""

from __future__ import annotations

import json
import math
import os
from fractions import Fraction
from typing import Any

import numpy as np

from harness import common
from harness.common import F
from harness.common import Result
from harness.common import rat

PID = "C14"
GUARD = Fraction(1, 2**40)

TRUSTED_EXTRA = (
    "C14 (partial): the third-party samplers (SciPy QMC engines, OpenTURNS experiments and sequences, pyDOE3) are "
    "parameters of the model; their range [0,1]^d, their sample count and their seed-determinism are assumptions "
    "validated on every run (oracle on the real outputs), not theorems",
    "C14: float arithmetic of untransform_vect is compared with the exact rational model up to a 2^-40 relative guard "
    "(exactly whenever every intermediate is representable); an integer component may differ by one only when the "
    "exact value before rounding is within 2^-40 of a half-integer",
    "C14: DesignSpace is the C02 model (its own correspondence is checked by ./check C02)",
    "C14: process histories are run in children of a fork server (harness/c14_fresh.py) that has imported GEMSEO and the DOE "
    "library modules and sampled nothing; 'a new process' means such a child (state created at import time is common to a "
    "history and to its references); the rows of the ThirdParty tables of the `proc` driver line are the unit samples of "
    "these reference processes (for the OpenTURNS sequences: of openturns' own sequence objects)",
)

# --------------------------------------------------------------------------- algorithm table
# family: how the number of samples is defined; seed: name of the seed setting (None: not seeded)
# scope: "in" = named by the property's quantifier, "probe" = out-of-scope probe stream.

ALGOS: dict[str, dict[str, Any]] = {
    # Monte Carlo
    "MC": {"family": "n", "seed": "seed"},
    "OT_MONTE_CARLO": {"family": "n", "seed": "seed"},
    "OT_RANDOM": {"family": "n", "seed": "seed"},
    # LHS variants
    "LHS": {"family": "n", "seed": "seed"},
    "OT_LHS": {"family": "n", "seed": "seed"},
    "OT_LHSC": {"family": "n", "seed": "seed"},
    "OT_OPT_LHS": {"family": "n", "seed": "seed", "min_n": 2},
    "PYDOE_LHS": {"family": "n", "seed": "random_state", "seed_min": 1},  # random_state: PositiveInt
    # low-discrepancy sequences / space-filling engines
    "Halton": {"family": "n", "seed": "seed"},
    "Sobol": {"family": "n", "seed": "seed"},
    "PoissonDisk": {"family": "n<=", "seed": "seed"},
    "OT_FAURE": {"family": "n", "seed": "seed", "det": True},
    "OT_HALTON": {"family": "n", "seed": "seed", "det": True},
    "OT_HASELGROVE": {"family": "n", "seed": "seed", "det": True},
    "OT_REVERSE_HALTON": {"family": "n", "seed": "seed", "det": True},
    "OT_SOBOL": {"family": "n", "seed": "seed", "det": True},
    # full-factorial
    "OT_FULLFACT": {"family": "fullfact", "seed": "seed", "det": True},
    "PYDOE_FULLFACT": {"family": "fullfact", "seed": None},
    "PYDOE_FF2N": {"family": "ff2n", "seed": None},
    # diagonal
    "DiagonalDOE": {"family": "diagonal", "seed": None},
    # stratified OpenTURNS designs
    "OT_AXIAL": {"family": "axial", "seed": "seed", "det": True},
    "OT_FACTORIAL": {"family": "factorial", "seed": "seed", "det": True},
    "OT_COMPOSITE": {"family": "composite", "seed": "seed", "det": True},
    "OT_SOBOL_INDICES": {"family": "sobolidx", "seed": "seed"},
    # Morris / OAT / custom
    "MorrisDOE": {"family": "morris", "seed": None},
    "OATDOE": {"family": "oat", "seed": None},
    "CustomDOE": {"family": "custom", "seed": None},
    # response-surface designs of pyDOE: not domain-filling (CCDESIGN leaves the bounds by design)
    "PYDOE_BBDESIGN": {"family": "fixed", "seed": None, "scope": "probe", "min_dim": 3},
    "PYDOE_CCDESIGN": {"family": "fixed", "seed": None, "scope": "probe", "min_dim": 2},
    "PYDOE_PBDESIGN": {"family": "fixed", "seed": None, "scope": "probe"},
}
IN_SCOPE = [a for a, m in ALGOS.items() if m.get("scope", "in") == "in"]
N_VALUES = [1, 2, 5, 17]
# explicit seeds: "all ... seeds" includes the falsy one (0) and the largest one the libraries accept
SEED_VALUES = [0, 0, 0, 1, 2, 3, 7, 11, 123, 2**31 - 1]


def factory():
    from gemseo.algos.doe.factory import DOELibraryFactory

    return DOELibraryFactory()


# --------------------------------------------------------------------------- design spaces
# space = {"int0": bool, "vars": [{"name", "int", "lb": [str], "ub": [str], "value": None|[str]}]}
# numbers are strings "p/q" of the exact value of the float given to GEMSEO.

NAMES = ["x", "y", "k", "ab", "z_1", "m"]


def fr(s) -> Fraction:
    return Fraction(s)


def gen_space(rng: common.Rng, dim: int, stream: str) -> dict[str, Any]:
    sizes = []
    left = dim
    while left:
        s = rng.pick([1, 1, 1, 2, 2, 3])
        s = min(s, left)
        sizes.append(s)
        left -= s
    names = list(NAMES)
    rng.shuffle(names)
    disjoint = rng.chance(0.7)
    all_int = rng.chance(0.12)
    all_float = not all_int and rng.chance(0.15)
    vs = []
    for j, size in enumerate(sizes):
        is_int = all_int or (not all_float and rng.chance(0.45))
        shift = 40 * j if disjoint else 0
        lb, ub = [], []
        for _ in range(size):
            if is_int:
                lo = rng.pick([rng.randint(-9, 9), rng.randint(-9, 9), 10**6, -(10**5)]) + shift
                rg = rng.pick([0, 1, 1, 2, 3, 5, 7, 8, 100]) if rng.chance(0.9) else 0
                lb.append(Fraction(lo))
                ub.append(Fraction(lo + rg))
            elif stream == "exact":
                lo = Fraction(rng.randint(-64, 64), 8) + shift
                rg = Fraction(2) ** rng.randint(-2, 4) if rng.chance(0.95) else Fraction(0)
                lb.append(lo)
                ub.append(lo + rg)
            else:
                lo = F(float(rng.pick([0.1, -0.3, 2.7, -7.25, 1e-3, 123.456, -1e4, 0.0]) + shift))
                rg = rng.pick([0.3, 1.1, 1e-2, 7.0, 1e3, 0.5]) if rng.chance(0.95) else 0.0
                hi = F(float(lo) + rg)
                lb.append(lo)
                ub.append(hi)
        value = None
        if rng.chance(0.3):
            value = []
            for l, u in zip(lb, ub):
                if is_int:
                    value.append(Fraction(rng.randint(int(l), int(u))))
                else:
                    value.append(rng.pick([l, u, F((float(l) + float(u)) / 2)]))
        vs.append({"name": names[j], "int": is_int, "lb": [rat(b) for b in lb], "ub": [rat(b) for b in ub],
                   "value": None if value is None else [rat(v) for v in value]})
    return {"int0": rng.chance(0.25), "vars": vs}


def space_dim(space) -> int:
    return sum(len(v["lb"]) for v in space["vars"])


def build_space(space):
    from gemseo.algos.design_space import DesignSpace

    ds = DesignSpace()
    for v in space["vars"]:
        lb = np.array([float(fr(b)) for b in v["lb"]])
        ub = np.array([float(fr(b)) for b in v["ub"]])
        kw: dict[str, Any] = {}
        if v["value"] is not None:
            vals = [fr(t) for t in v["value"]]
            kw["value"] = np.array([int(t) for t in vals]) if v["int"] else np.array([float(t) for t in vals])
        ds.add_variable(v["name"], size=len(lb), type_="integer" if v["int"] else "float",
                        lower_bound=lb, upper_bound=ub, **kw)
    if space["int0"]:
        ds.enable_integer_variables_normalization = True
    return ds


def varspecs(space) -> str:
    out = []
    for v in space["vars"]:
        out.append(f"{v['name']}:{'i' if v['int'] else 'f'}:{','.join(v['lb'])}:{','.join(v['ub'])}:"
                   f"{'_' if v['value'] is None else ','.join(v['value'])}")
    return ";".join(out) or "[]"


def flat(space):
    """[(is_int, lb, ub)] per component, in the order the variables were added (= design-space order)."""
    return [(v["int"], fr(l), fr(u)) for v in space["vars"] for l, u in zip(v["lb"], v["ub"])]


# --------------------------------------------------------------------------- requests
# request = {"algo", "n", "seed", "opts": {...json-able...}}; opts hold the algorithm settings other than
# n_samples / seed; arrays are given as nested lists of "p/q" strings under the keys listed in ARRAY_OPTS.


def pick_seed(rng: common.Rng, algo: str, values=None) -> int:
    """An explicit seed the algorithm's settings accept (PYDOE_LHS documents a positive random_state)."""
    return max(rng.pick(values or SEED_VALUES), ALGOS[algo].get("seed_min", 0))


def seed_kw(algo: str, seed) -> dict[str, Any]:
    key = ALGOS[algo]["seed"]
    if key is None or seed is None:
        return {}
    return {key: int(seed)}


def gen_opts(rng: common.Rng, algo: str, space, n: int) -> dict[str, Any]:
    """Random algorithm configuration (kept JSON-able)."""
    d = space_dim(space)
    o: dict[str, Any] = {}
    if algo == "PoissonDisk" and d >= 5:
        # SciPy allocates (sqrt(d)/radius)^d cells: the default radius 0.05 needs > 1 GB in dimension 5
        return {"radius": rng.pick([0.2, 0.3])}
    if rng.chance(0.45) and algo not in ("OATDOE", "CustomDOE"):
        return o
    if algo == "LHS":
        o["scramble"] = rng.chance(0.6)
        if rng.chance(0.3):
            o["optimization"] = "random-cd"
    elif algo == "Halton":
        o["scramble"] = rng.chance(0.5)
    elif algo == "Sobol":
        o["scramble"] = rng.chance(0.5)
        if rng.chance(0.3):
            o["bits"] = rng.pick([16, 32, 64])
    elif algo == "PoissonDisk":
        o["radius"] = rng.pick([0.05, 0.1, 0.2])  # smaller radii allocate (sqrt(d)/r)^d cells in SciPy
        o["hypersphere"] = rng.pick(["volume", "surface"])
    elif algo == "PYDOE_LHS":
        # pyDOE3 itself fails for maximin with one sample and for correlation with < 3 samples or 1 dimension
        crits = ["center", "c"]
        if n >= 2:
            crits += ["maximin", "centermaximin", "m"]
        if n >= 3 and d >= 2:
            crits += ["correlation"]
        o["criterion"] = rng.pick(crits)
        o["iterations"] = rng.pick([1, 3])
    elif algo == "OT_OPT_LHS":
        o["annealing"] = rng.chance(0.5)
        o["criterion"] = rng.pick(["C2", "PhiP", "MinDist"])
        o["temperature"] = rng.pick(["Geometric", "Linear"])
        o["n_replicates"] = rng.pick([3, 20])
    elif algo == "OT_SOBOL_INDICES":
        o["eval_second_order"] = rng.chance(0.5)
    elif algo in ("OT_FULLFACT", "PYDOE_FULLFACT"):
        if rng.chance(0.6):
            o["levels"] = [rng.pick([1, 2, 2, 3, 4]) for _ in range(d)] if rng.chance(0.7) else rng.pick([1, 2, 3])
            o["no_n"] = True
    elif algo in ("OT_AXIAL", "OT_FACTORIAL", "OT_COMPOSITE"):
        if rng.chance(0.7):
            k = rng.pick([1, 2, 3])
            lev = sorted({rng.pick(["1/8", "1/4", "1/2", "3/4", "1", "1/5", "4/5"]) for _ in range(k)}, key=Fraction)
            o["levels"] = lev
            o["centers"] = ([rng.pick(["1/2", "1/4", "3/4", "1/8", "3/10"]) for _ in range(d)]
                            if rng.chance(0.6) else rng.pick(["1/2", "1/4", "7/8"]))
            o["no_n"] = True
    elif algo == "DiagonalDOE":
        rev = []
        for v in space["vars"]:
            if rng.chance(0.3):
                rev.append(v["name"])
        for i in range(d):
            if rng.chance(0.2):
                rev.append(str(i))
        o["reverse"] = rev
    elif algo == "MorrisDOE":
        o["step"] = rng.pick(["1/20", "1/4", "1/2", "1/8"])
        inner = rng.pick(["PYDOE_LHS", "MC", "OT_HALTON", "LHS", "OT_MONTE_CARLO"])
        o["doe_algo_name"] = inner
        if rng.chance(0.5):
            o["doe_algo_settings"] = seed_kw(inner, rng.randint(1, 50))
    elif algo == "OATDOE":
        o["step"] = rng.pick(["1/20", "1/4", "1/2", "1/8", "3/8"])
        o["initial_point"] = [rat(Fraction(rng.randint(0, 16), 16)) if rng.chance(0.7) else rat(F(rng.random()))
                              for _ in range(d)]
    elif algo == "CustomDOE":
        rows = []
        for _ in range(max(1, n)):
            row = []
            for is_int, l, u in flat(space):
                if is_int:
                    row.append(rat(Fraction(rng.randint(int(l), int(u)))))
                else:
                    t = rng.pick([Fraction(0), Fraction(1), Fraction(1, 2), Fraction(rng.randint(0, 16), 16)])
                    row.append(rat(F(float(l + t * (u - l)))))
            rows.append(row)
        o["samples"] = rows
        o.update(gen_custom_form(rng, space, len(rows)))
    return o


CUSTOM_FORMS = ["array", "dict", "dict", "dicts", "dicts", "dicts", "file"]


def gen_custom_form(rng: common.Rng, space, n_rows: int) -> dict[str, Any]:
    """How the user writes the `samples` of CustomDOE: every documented form ("a 2D-array, a dictionary of
    2D-arrays or a list of dictionaries of 1D-arrays", or a file), the dictionaries in the key order the user
    likes (the identity, the reverse, a random permutation; one order per dictionary), integer variables given
    as integer or as float arrays."""
    names = [v["name"] for v in space["vars"]]
    o: dict[str, Any] = {"form": rng.pick(CUSTOM_FORMS)}

    def order():
        kind = rng.pick(["same", "reverse", "shuffle", "shuffle"])
        k = list(names)
        if kind == "reverse":
            k.reverse()
        elif kind == "shuffle":
            rng.shuffle(k)
        return k

    if o["form"] == "dict":
        o["orders"] = [order()]
    elif o["form"] == "dicts":
        o["orders"] = [order()] * n_rows if rng.chance(0.5) else [order() for _ in range(n_rows)]
    elif o["form"] == "file":
        o["file"] = {"ext": rng.pick([".txt", ".csv"]), "delimiter": rng.pick([",", ",", ";", " "]),
                     "skiprows": rng.pick([0, 0, 1, 2]), "comment": rng.chance(0.3)}
    if o["form"] in ("dict", "dicts"):
        o["int_dtype"] = rng.chance(0.5)
    return o


_TMPDIR: str | None = None


def tmp_dir() -> str:
    """Scratch directory of this process (removed at exit) for the `doe_file` inputs of CustomDOE."""
    global _TMPDIR
    if _TMPDIR is None or not os.path.isdir(_TMPDIR):
        import atexit
        import tempfile

        _TMPDIR = tempfile.mkdtemp(prefix="c14-")
        atexit.register(cleanup_tmp)
    return _TMPDIR


def cleanup_tmp() -> None:
    global _TMPDIR
    if _TMPDIR is not None:
        import shutil

        shutil.rmtree(_TMPDIR, ignore_errors=True)
        _TMPDIR = None


def dec(x: Fraction) -> str:
    """Decimal text of a float value that `float()` reads back exactly."""
    f = float(x)
    return repr(int(f)) if f == int(f) and abs(f) < 1e15 else repr(f)


def write_doe_file(rows, spec) -> str:
    import hashlib

    delim = spec["delimiter"]
    lines = ["header line to skip"] * spec["skiprows"]
    for i, row in enumerate(rows):
        if spec.get("comment") and i == 1:
            lines.append("# a comment line")
        lines.append(delim.join(dec(fr(t)) for t in row))
    text = "\n".join(lines) + "\n"
    path = os.path.join(tmp_dir(), "doe-" + hashlib.sha1((text + json.dumps(spec, sort_keys=True)).encode()).hexdigest()[:16] + spec["ext"])
    if not os.path.exists(path):
        with open(path, "w") as f:
            f.write(text)
    return path


def custom_samples_setting(space, opts) -> dict[str, Any]:
    """The `samples` / `doe_file` settings of CustomDOE as the user writes them."""
    v = opts["samples"]
    arr = np.array([[float(fr(t)) for t in row] for row in v])
    form = opts.get("form", "array")
    if form == "array":
        return {"samples": arr}
    if form == "file":
        spec = opts["file"]
        kw: dict[str, Any] = {"doe_file": write_doe_file(v, spec)}
        if spec["delimiter"] != ",":
            kw["delimiter"] = spec["delimiter"]
        if spec["skiprows"]:
            kw["skiprows"] = spec["skiprows"]
        return kw
    cols, start = {}, 0
    for var in space["vars"]:
        size = len(var["lb"])
        c = arr[:, start:start + size]
        if var["int"] and opts.get("int_dtype"):
            c = c.astype(int)
        cols[var["name"]] = c
        start += size
    names = [var["name"] for var in space["vars"]]
    orders = opts.get("orders") or [names]
    if form == "dict":
        return {"samples": {name: cols[name] for name in orders[0]}}
    out = []
    for i in range(arr.shape[0]):
        order = orders[i] if i < len(orders) else names
        out.append({name: cols[name][i] for name in order})
    return {"samples": out}


def settings_of(space, req) -> dict[str, Any]:
    """The keyword settings given to compute_doe / execute."""
    algo, n, opts = req["algo"], req["n"], dict(req["opts"])
    fam = ALGOS[algo]["family"]
    kw: dict[str, Any] = {}
    no_n = opts.pop("no_n", False)
    if fam in ("n", "n<=", "fullfact", "diagonal", "axial", "factorial", "composite", "sobolidx", "morris") and not no_n:
        kw["n_samples"] = n
    kw.update(seed_kw(algo, req.get("seed")))
    for k, v in opts.items():
        if k in ("step",):
            kw[k] = float(fr(v))
        elif k == "initial_point":
            kw[k] = np.array([float(fr(t)) for t in v])
        elif k == "levels" and algo in ("OT_AXIAL", "OT_FACTORIAL", "OT_COMPOSITE"):
            kw[k] = [float(fr(t)) for t in v]
        elif k == "centers":
            kw[k] = [float(fr(t)) for t in v] if isinstance(v, list) else float(fr(v))
        elif k == "samples":
            kw.update(custom_samples_setting(space, opts))
        elif k in ("form", "orders", "file", "int_dtype"):
            continue
        elif k == "doe_algo_settings":
            kw[k] = dict(v)
        else:
            kw[k] = v
    return kw


# --------------------------------------------------------------------------- documented counts (oracle side)


def int_root(n: int, d: int) -> int:
    k = 0
    while (k + 1) ** d <= n:
        k += 1
    return k


def documented_count(space, req) -> tuple[str, int | None]:
    """(rule, count) from the documentation of each design; rule 'eq' = exactly, 'le' = at most,
    None count = the request is rejected (no design of that size exists)."""
    algo, n, opts = req["algo"], req["n"], req["opts"]
    d = space_dim(space)
    fam = ALGOS[algo]["family"]
    if fam == "n":
        if n < ALGOS[algo].get("min_n", 1):
            return "eq", None
        return "eq", n
    if fam == "n<=":
        return "le", n
    if fam == "fullfact":
        if opts.get("no_n"):
            lev = opts["levels"]
            lev = [lev] * d if isinstance(lev, int) else lev
            return "eq", math.prod(lev)
        return "eq", int_root(n, d) ** d
    if fam == "ff2n":
        return "eq", 2**d
    if fam == "diagonal":
        return "eq", (n if n >= 2 else None)
    if fam in ("axial", "factorial", "composite"):
        block = {"axial": 2 * d, "factorial": 2**d, "composite": 2 * d + 2**d}[fam]
        if opts.get("no_n"):
            return "eq", 1 + block * len(opts["levels"])
        lv = (n - 1) // block
        return "eq", (1 + block * lv if lv >= 1 else None)
    if fam == "sobolidx":
        # openturns.SobolIndicesExperiment: N(2+d) points; N(2+2d) with second-order indices unless d = 2
        block = 2 * d + 2 if (opts.get("eval_second_order", True) and d != 2) else d + 2
        return "eq", ((n // block) * block if n // block >= 1 else None)
    if fam == "morris":
        r = n // (d + 1)
        return "eq", (r * (d + 1) if r >= 1 else None)
    if fam == "oat":
        return "eq", d + 1
    if fam == "custom":
        return "eq", len(opts["samples"])
    return "none", None


def valid_request(space, req) -> bool:
    """The request is inside the property's quantifier *and* inside what the third-party library supports
    (re-checked on every neighbour / shrunk case so that the search cannot leave the scope)."""
    algo, n, opts = req["algo"], req["n"], req["opts"]
    d = space_dim(space)
    if d < ALGOS[algo].get("min_dim", 1) or d < 1 or n < 1:
        return False
    if req.get("seed") is not None and ALGOS[algo]["seed"] is not None and req["seed"] < ALGOS[algo].get("seed_min", 0):
        return False
    if algo == "PYDOE_LHS":
        crit = opts.get("criterion")
        if crit in ("maximin", "m", "centermaximin", "cm") and n < 2:
            return False
        if crit in ("correlation", "corr") and (n < 3 or d < 2):
            return False
    if algo == "PoissonDisk" and d >= 5 and float(opts.get("radius", 0.05)) < 0.2:
        return False  # resource bound of the check (SciPy's cell grid), not of the property
    if algo == "CustomDOE":
        rows = opts.get("samples", [[]])
        if not rows or any(len(row) != d for row in rows):
            return False
        names = sorted(v["name"] for v in space["vars"])
        if opts.get("form") in ("dict", "dicts"):
            orders = opts.get("orders")  # absent: the keys in the design-space order
            if orders is not None and (len(orders) != (1 if opts["form"] == "dict" else len(rows))
                                       or any(sorted(o) != names for o in orders)):
                return False
        if opts.get("form") == "file" and "file" not in opts:
            return False
        for row in rows:  # samples given inside the bounds, integral on the integer variables
            for t, (is_int, l, u) in zip(row, flat(space)):
                if not l <= fr(t) <= u or (is_int and fr(t).denominator != 1):
                    return False
    if algo == "OATDOE" and len(opts.get("initial_point", [])) != d:
        return False
    if isinstance(opts.get("levels"), list) and algo in ("OT_FULLFACT", "PYDOE_FULLFACT") and len(opts["levels"]) != d:
        return False
    if isinstance(opts.get("centers"), list) and len(opts["centers"]) != d:
        return False
    if algo == "DiagonalDOE":
        names = {v["name"] for v in space["vars"]} | {str(i) for i in range(d)}
        if any(r not in names for r in opts.get("reverse", [])):
            return False
    return True


def count_key(space, req) -> str:
    """Classification of a count failure.  One class is a recorded finding of the pinned tree:
    OT_SOBOL_INDICES with second-order indices in dimension 1 (sub-sample size computed with the block
    d+2 = 3 while OpenTURNS generates blocks of 2d+2 = 4 points)."""
    if (req["algo"] == "OT_SOBOL_INDICES" and space_dim(space) == 1 and req["opts"].get("eval_second_order", True)):
        return "count-sobol-indices-second-order-dim1"
    return "count"


def count_bounded_by_request(req) -> bool:
    fam = ALGOS[req["algo"]]["family"]
    return fam in ("n", "n<=", "diagonal", "morris", "sobolidx") or (
        fam in ("fullfact", "axial", "factorial", "composite") and not req["opts"].get("no_n"))


# --------------------------------------------------------------------------- implementation runner


def fmat(a) -> list[list[Fraction]]:
    a = np.asarray(a)
    if a.ndim == 1:
        a = a.reshape(1, -1)
    return [[F(x) for x in row] for row in a]


def mat_str(m) -> str:
    return ";".join(",".join(rat(x) for x in row) for row in m) if m else "[]"


def rows_str(m) -> str:
    return " | ".join(",".join(rat(x) for x in row) for row in m)


def finite(a) -> bool:
    a = np.asarray(a, dtype=float)
    return bool(np.isfinite(a).all())


def _objective(x):
    return np.array([float(np.sum(x))])


def run_impl(space, req, parallel: bool = False) -> dict[str, Any]:
    """Observable behaviour of the real code for one request (fresh library instances)."""
    from gemseo.algos.optimization_problem import OptimizationProblem
    from gemseo.core.mdo_functions.mdo_function import MDOFunction

    algo = req["algo"]
    obs: dict[str, Any] = {}
    fac = factory()

    def call(lib, ds, **extra):
        kw = settings_of(space, req)
        kw.update(extra)
        try:
            return np.array(lib.compute_doe(ds, **kw)), None
        except Exception as e:  # noqa: BLE001
            return None, e

    # compute_doe twice on one library, once on a fresh one, once for the unit samples
    ds = build_space(space)
    lib = fac.create(algo)
    seed_before = lib.seed
    x1, e1 = call(lib, ds)
    obs["int_after_compute"] = bool(ds.enable_integer_variables_normalization)
    obs["lseed_after_1"] = lib.seed - seed_before
    x2, e2 = call(lib, ds)
    u, eu = call(lib, ds, unit_sampling=True)
    obs["int_after_unit"] = bool(ds.enable_integer_variables_normalization)
    lib2 = fac.create(algo)
    ds2 = build_space(space)
    x3, e3 = call(lib2, ds2)
    obs["exc"] = None if e1 is None else common.exc_class(e1)
    obs["exc_msg"] = None if e1 is None else repr(e1)[:160]
    obs["exc_consistent"] = all((e is None) == (e1 is None) for e in (e2, e3, eu))
    obs["x1"], obs["x2"], obs["x3"], obs["u"] = x1, x2, x3, u
    # execute on a problem
    ds3 = build_space(space)
    pb = OptimizationProblem(ds3)
    pb.objective = MDOFunction(_objective, "f")
    lib3 = fac.create(algo)
    try:
        lib3.execute(pb, **settings_of(space, req))
        obs["exec_exc"] = None
        obs["xs"] = np.array(lib3.samples)
        obs["us"] = np.array(lib3.unit_samples)
        obs["db"] = [np.array(k) for k in pb.database.get_x_vect_history()]
    except Exception as e:  # noqa: BLE001
        obs["exec_exc"] = common.exc_class(e)
        obs["exec_msg"] = repr(e)[:160]
    obs["int_after_exec"] = bool(ds3.enable_integer_variables_normalization)
    obs["lseed_after_exec"] = lib3.seed
    # other entry points and configurations: the high-level API with a settings model, parallel execution
    obs["x4"] = obs["x4_exc"] = None
    if x1 is not None:
        import gemseo

        try:
            model = lib.ALGORITHM_INFOS[algo].Settings(**settings_of(space, req))
            obs["x4"] = np.array(gemseo.compute_doe(build_space(space), settings_model=model))
        except Exception as e:  # noqa: BLE001
            obs["x4_exc"] = repr(e)[:160]
    if parallel and x1 is not None and obs.get("exec_exc") is None:
        ds4 = build_space(space)
        pb4 = OptimizationProblem(ds4)
        pb4.objective = MDOFunction(_objective, "f")
        lib4 = fac.create(algo)
        try:
            lib4.execute(pb4, n_processes=2, **settings_of(space, req))
            obs["par_xs"] = np.array(lib4.samples)
            obs["par_db"] = [np.array(k) for k in pb4.database.get_x_vect_history()]
        except Exception as e:  # noqa: BLE001
            obs["par_exc"] = repr(e)[:160]
    # variable order as seen by the design space
    obs["names"] = list(ds.variable_names)
    obs["dict0"] = None
    if x1 is not None and x1.ndim == 2 and x1.shape[0] and x1.shape[1] == ds.dimension:
        try:
            obs["dict0"] = {k: np.array(v) for k, v in ds.convert_array_to_dict(x1[0]).items()}
        except Exception:  # noqa: BLE001
            obs["dict0"] = None
    return obs


# --------------------------------------------------------------------------- oracle (property text)


def image_ok(comp, t: Fraction, x: Fraction) -> bool:
    """x is the design-space image of the unit value t (affine map, half-even rounding of integers)."""
    is_int, l, u = comp
    y = l + t * (u - l)
    if not is_int:
        return abs(x - y) <= GUARD * max(1, abs(y))
    lo = math.floor(y)
    frac = y - lo
    if frac < Fraction(1, 2):
        r = lo
    elif frac > Fraction(1, 2):
        r = lo + 1
    else:
        r = lo if lo % 2 == 0 else lo + 1
    if x == r:
        return True
    # float evaluation of y may fall on the other side of a *near* tie; an exact tie (exact in floats too, the
    # operands being small dyadic numbers) must be rounded half to even
    return frac != Fraction(1, 2) and abs(frac - Fraction(1, 2)) <= GUARD * max(1, abs(y)) and x in (lo, lo + 1)


def custom_differs(req, X) -> str | None:
    """None iff the samples X are the samples the user gave (the harness's record: rows in the design-space
    variable order), up to the float round trip normalise / unnormalise."""
    given = custom_rows(req)
    if len(given) != len(X):
        return f"{len(X)} samples for {len(given)} given"
    for i, (xr, gr) in enumerate(zip(X, given)):
        if len(xr) != len(gr) or not all(abs(x - g) <= GUARD * max(1, abs(g)) for x, g in zip(xr, gr)):
            return (f"sample {i} is {[float(t) for t in xr]}, given {[float(t) for t in gr]} "
                    "(in the design space's variable order)")
    return None


def oracle(space, req, obs) -> list[tuple[str, str]]:
    bad: list[tuple[str, str]] = []
    algo = req["algo"]
    comps = flat(space)
    d = len(comps)
    rule, cnt = documented_count(space, req)
    if not valid_request(space, req):
        return []
    if obs["exc"] is not None or obs["x1"] is None:
        if cnt is not None and rule != "none":
            bad.append(("valid-request-rejected", f"{algo}: a valid request raised {obs['exc_msg']}"))
        return bad
    x1 = obs["x1"]
    if x1.ndim != 2 or x1.shape[1] != d:
        return [("shape", f"{algo}: samples of shape {x1.shape} in dimension {d}")]
    if not finite(x1):
        return [("not-finite", f"{algo}: non-finite sample values")]
    X = fmat(x1)
    slack_custom = algo == "CustomDOE"
    # 1. inside the bounds, 2. integer variables integral, 3. variable order
    for i, row in enumerate(X):
        for j, (x, (is_int, l, u)) in enumerate(zip(row, comps)):
            tol = GUARD * max(1, abs(l), abs(u)) if slack_custom else 0
            if not (l - tol <= x <= u + tol):
                bad.append(("out-of-bounds", f"{algo}: sample {i} component {j} = {float(x)} outside [{float(l)}, {float(u)}]"))
                break
            if is_int and x.denominator != 1:
                bad.append(("non-integer", f"{algo}: sample {i} integer component {j} = {float(x)}"))
                break
    if obs["names"] != [v["name"] for v in space["vars"]]:
        bad.append(("variable-order", f"{algo}: design-space variable order {obs['names']}"))
    if obs["dict0"] is not None:
        start = 0
        for v in space["vars"]:
            size = len(v["lb"])
            blk = obs["dict0"].get(v["name"])
            if blk is None or [F(t) for t in np.atleast_1d(blk)] != X[0][start:start + size]:
                bad.append(("variable-order", f"{algo}: block of {v['name']} is not columns {start}:{start + size}"))
                break
            start += size
    # 3'. a custom DOE consists of the given samples, expressed in the design space's variable order
    if algo == "CustomDOE":
        msg = custom_differs(req, X)
        if msg:
            bad.append(("custom-samples-order", f"CustomDOE (samples given as {req['opts'].get('form', 'array')}): {msg}"))
    # 4. counts
    n_rows = len(X)
    if rule == "eq" and cnt is not None and n_rows != cnt:
        bad.append((count_key(space, req), f"{algo}: {n_rows} samples, documented count {cnt} (n={req['n']}, d={d})"))
    if rule == "le" and not n_rows <= cnt:
        bad.append(("count", f"{algo}: {n_rows} samples > {cnt}"))
    if rule == "eq" and cnt is None:
        bad.append((count_key(space, req), f"{algo}: returned {n_rows} samples for a request without a design (n={req['n']}, d={d})"))
    if count_bounded_by_request(req) and not n_rows <= req["n"]:
        bad.append((count_key(space, req) if count_key(space, req) != "count" else "count-exceeds-request", f"{algo}: {n_rows} samples for n_samples={req['n']}"))
    # 5. same algorithm, settings and seed => same samples
    explicit = ALGOS[algo]["seed"] is None or req.get("seed") is not None or ALGOS[algo].get("det")
    for tag in ("x2", "x3"):
        other = obs[tag]
        if tag == "x2" and not explicit:
            continue  # default seed: the second call of the same library uses the next seed
        if other is None or other.shape != x1.shape or not np.array_equal(other, x1):
            bad.append(("not-reproducible", f"{algo}: {tag} differs from the first generation (seed={req.get('seed')})"))
            break
    if explicit:
        if obs.get("x4_exc") is not None:
            bad.append(("execute-raises", f"{algo}: gemseo.compute_doe with a settings model raised {obs['x4_exc']}"))
        elif obs.get("x4") is not None and (obs["x4"].shape != x1.shape or not np.array_equal(obs["x4"], x1)):
            bad.append(("not-reproducible", f"{algo}: gemseo.compute_doe(settings_model=...) differs from the library's compute_doe"))
    if "par_exc" in obs:
        bad.append(("execute-raises", f"{algo}: parallel execute raised {obs['par_exc']}"))
    elif "par_xs" in obs:
        P = fmat(obs["par_xs"]) if obs["par_xs"].size else []
        if explicit and (obs["par_xs"].shape != x1.shape or not np.array_equal(obs["par_xs"], x1)):
            bad.append(("not-reproducible", f"{algo}: parallel execute generated other samples than compute_doe"))
        uniq_p: list[list[Fraction]] = []
        for row in P:
            if row not in uniq_p:
                uniq_p.append(row)
        if [[F(t) for t in k] for k in obs["par_db"]] != uniq_p:
            bad.append(("database-order", f"{algo}: after a parallel execute the database keys differ from the samples in generation order"))
    # 6. samples = image of the unit samples
    if explicit and obs["u"] is not None and algo != "CustomDOE":
        U = fmat(obs["u"])
        if len(U) != len(X) or any(len(r) != d for r in U):
            bad.append(("image", f"{algo}: unit samples of shape {np.asarray(obs['u']).shape} for samples {x1.shape}"))
        else:
            for i, (ur, xr) in enumerate(zip(U, X)):
                if not all(image_ok(c, t, x) for c, t, x in zip(comps, ur, xr)):
                    bad.append(("image", f"{algo}: sample {i} {[float(t) for t in xr]} is not the image of unit sample {[float(t) for t in ur]}"))
                    break
    # execute(): library attributes and database
    if obs.get("exec_exc") is not None:
        bad.append(("execute-raises", f"{algo}: execute raised {obs.get('exec_msg')} while compute_doe succeeded"))
    elif "xs" in obs:
        xs, us = obs["xs"], obs["us"]
        if xs.ndim != 2 or xs.shape[1] != d or not finite(xs):
            bad.append(("shape", f"{algo}: lib.samples of shape {xs.shape}"))
        else:
            XS = fmat(xs)
            if algo == "CustomDOE" and custom_differs(req, XS):
                bad.append(("custom-samples-order", f"CustomDOE (samples given as {req['opts'].get('form', 'array')}), execute: {custom_differs(req, XS)}"))
            if explicit and (xs.shape != x1.shape or not np.array_equal(xs, x1)):
                bad.append(("not-reproducible", f"{algo}: execute generated other samples than compute_doe"))
            for i, row in enumerate(XS):
                if not all((l - (GUARD * max(1, abs(l), abs(u)) if slack_custom else 0) <= x <= u + (GUARD * max(1, abs(l), abs(u)) if slack_custom else 0))
                           and (not is_int or x.denominator == 1) for x, (is_int, l, u) in zip(row, comps)):
                    bad.append(("out-of-bounds", f"{algo}: execute sample {i} {[float(t) for t in row]} violates bounds/types"))
                    break
            if us.shape == xs.shape and finite(us):
                for i, (ur, xr) in enumerate(zip(fmat(us), XS)):
                    if not all(image_ok(c, t, x) for c, t, x in zip(comps, ur, xr)):
                        bad.append(("image", f"{algo}: lib.samples[{i}] is not the image of lib.unit_samples[{i}]"))
                        break
            else:
                bad.append(("image", f"{algo}: lib.unit_samples of shape {us.shape} for lib.samples {xs.shape}"))
            uniq: list[list[Fraction]] = []
            for row in XS:
                if row not in uniq:
                    uniq.append(row)
            dbk = [[F(t) for t in k] for k in obs["db"]]
            if dbk != uniq:
                bad.append(("database-order", f"{algo}: database keys differ from the samples in generation order ({len(dbk)} keys, {len(uniq)} distinct samples)"))
    out, seen = [], set()
    for k, m in bad:
        if k not in seen:
            seen.add(k)
            out.append((k, m))
    return out


# --------------------------------------------------------------------------- model lines and comparison


def doe_line(space, req, mode: str, rows, lseed: int = 0, ok: bool = True) -> str:
    algo = req["algo"]
    seeded = ALGOS[algo]["seed"] is not None
    seed = req.get("seed")
    head = (
        f"doe mode={mode} int0={1 if space['int0'] else 0} hyper={0 if algo == 'CustomDOE' else 1} "
        f"custom={1 if algo == 'CustomDOE' else 0} ok={1 if ok else 0} uses={1 if seeded else 0} lseed={lseed} "
        f"seed={'_' if seed is None else seed} vars={varspecs(space)}"
    )
    if rows is None:
        return head + " | fail"
    if not rows:
        return head
    return head + " | " + rows_str(rows)


def custom_groups(space, req) -> tuple[str, str]:
    """(form, groups) of the `custom` protocol line: the samples as the user wrote them, key orders included."""
    opts = req["opts"]
    rows = opts["samples"]
    form = opts.get("form", "array")
    if form in ("array", "file"):
        return "array", " | ".join(",".join(row) for row in rows)
    names = [v["name"] for v in space["vars"]]
    rng_of, start = {}, 0
    for v in space["vars"]:
        rng_of[v["name"]] = (start, start + len(v["lb"]))
        start += len(v["lb"])
    orders = opts.get("orders") or [names]
    if form == "dict":
        return "dict", " | ".join(f"{n}=" + ";".join(",".join(row[rng_of[n][0]:rng_of[n][1]]) for row in rows) for n in orders[0])
    out = []
    for i, row in enumerate(rows):
        order = orders[i] if i < len(orders) else names
        out.append(";".join(f"{n}=" + ",".join(row[rng_of[n][0]:rng_of[n][1]]) for n in order))
    return "dicts", " | ".join(out)


def custom_line(space, req, mode: str, lseed: int = 0) -> str:
    form, groups = custom_groups(space, req)
    return (f"custom mode={mode} int0={1 if space['int0'] else 0} lseed={lseed} form={form} vars={varspecs(space)}"
            + (" | " + groups if groups else ""))


def parse_answer(ans: str) -> dict[str, str]:
    return dict(t.split("=", 1) for t in ans.split(" ") if "=" in t)


def parse_matrix(s: str) -> list[list[Fraction]]:
    if s == "[]":
        return []
    return [[Fraction(t) for t in row.split(",")] for row in s.split(";")]


def close_matrix(space, model, real, unit) -> str | None:
    """Compare the model's samples with the real ones: exact, or within the guard (tie rule for integers)."""
    comps = flat(space)
    if len(model) != len(real):
        return f"{len(real)} rows, model {len(model)}"
    for i, (mr, rr) in enumerate(zip(model, real)):
        if len(mr) != len(rr):
            return f"row {i}: {len(rr)} columns, model {len(mr)}"
        for j, (m, r) in enumerate(zip(mr, rr)):
            if m == r:
                continue
            is_int, l, u = comps[j]
            if not is_int:
                if abs(m - r) <= GUARD * max(1, abs(m)):
                    continue
                return f"row {i} col {j}: real {float(r)!r} model {float(m)!r}"
            t = unit[i][j] if unit is not None and i < len(unit) and j < len(unit[i]) else None
            if t is not None:
                y = l + t * (u - l)
                frac = y - math.floor(y)
                if frac != Fraction(1, 2) and abs(frac - Fraction(1, 2)) <= GUARD * max(1, abs(y)) and abs(m - r) == 1:
                    continue  # near tie decided differently by the float evaluation (never an exact tie)
            return f"row {i} col {j} (integer): real {float(r)!r} model {float(m)!r}"
    return None


def near(a: list[list[Fraction]], b: list[list[Fraction]]) -> str | None:
    if len(a) != len(b):
        return f"{len(b)} rows, model {len(a)}"
    for i, (ra, rb) in enumerate(zip(a, b)):
        if len(ra) != len(rb):
            return f"row {i}: widths {len(rb)} vs model {len(ra)}"
        for j, (x, y) in enumerate(zip(ra, rb)):
            if x != y and not abs(x - y) <= GUARD * max(1, abs(x)):
                return f"row {i} col {j}: real {float(y)!r} model {float(x)!r}"
    return None


def near_custom_unit(space, a: list[list[Fraction]], b: list[list[Fraction]]) -> str | None:
    """`lib.unit_samples` of CustomDOE = `transform_vect` of the given samples, computed in floats as
    `(x - lb) / (ub - lb)`: the subtraction cancels, the absolute error is about `eps (|x| + |lb|) / (ub - lb)`.
    Compared with the exact model up to the guard scaled by that condition number (e.g. bounds -10000 and
    -9999.99: 2e6)."""
    comps = flat(space)
    if len(a) != len(b):
        return f"{len(b)} rows, model {len(a)}"
    for i, (ra, rb) in enumerate(zip(a, b)):
        if len(ra) != len(rb) or len(ra) != len(comps):
            return f"row {i}: widths {len(rb)} vs model {len(ra)}"
        for j, (x, y) in enumerate(zip(ra, rb)):
            _, l, u = comps[j]
            cond = (abs(l) + abs(u)) / (u - l) if u > l else 1
            if x != y and not abs(x - y) <= GUARD * max(1, abs(x), cond):
                return f"row {i} col {j}: real {float(y)!r} model {float(x)!r}"
    return None


def custom_rows(req):
    return [[fr(t) for t in row] for row in req["opts"]["samples"]]


def case_lines(space, req, obs) -> list[tuple[str, str, Any]]:
    """Protocol lines of one case with what to compare: (tag, line, payload)."""
    algo = req["algo"]
    lines = []
    is_custom = algo == "CustomDOE"
    if obs["exc"] is None and obs["x1"] is not None and obs["x1"].ndim == 2:
        if is_custom:
            lines.append(("compute", custom_line(space, req, "compute"), {"x": obs["x1"], "u": None, "int": obs["int_after_compute"], "lseed": obs["lseed_after_1"]}))
        elif obs["u"] is not None and (ALGOS[algo]["seed"] is None or req.get("seed") is not None or ALGOS[algo].get("det")):
            rows = fmat(obs["u"])
            lines.append(("compute", doe_line(space, req, "compute", rows), {"x": obs["x1"], "u": rows, "int": obs["int_after_compute"], "lseed": obs["lseed_after_1"]}))
            lines.append(("unit", doe_line(space, req, "unit", rows), {"x": obs["u"], "u": None, "int": obs["int_after_unit"], "lseed": None}))
    if obs.get("exec_exc") is None and "xs" in obs and obs["xs"].ndim == 2:
        rows = None if is_custom else fmat(obs["us"])
        lines.append(("exec", custom_line(space, req, "exec") if is_custom else doe_line(space, req, "exec", rows), {"x": obs["xs"], "u": None if is_custom else rows, "custom": is_custom, "us": obs["us"], "int": obs["int_after_exec"], "lseed": obs["lseed_after_exec"], "db": obs["db"]}))
        if obs["xs"].shape[0]:
            lines.append(("db", "firstocc | " + rows_str(fmat(obs["xs"])), {"db": obs["db"]}))
    if "par_xs" in obs and obs["par_xs"].ndim == 2 and obs["par_xs"].shape[0]:
        lines.append(("db", "firstocc | " + rows_str(fmat(obs["par_xs"])), {"db": obs["par_db"]}))
    return lines


def compare_line(space, tag, ans: str, payload) -> str | None:
    if tag == "db":
        dbr = [[F(t) for t in k] for k in payload["db"]]
        if ans == "bad-op" or parse_matrix(ans) != dbr:
            return f"exec: database keys ({len(dbr)}) are not the first occurrences of lib.samples in generation order (model: {ans[:120]})"
        return None
    a = parse_answer(ans)
    if a.get("res") != "ok":
        return f"{tag}: model answers {ans[:80]} for a successful call"
    if (a.get("int") == "1") != payload["int"]:
        return f"{tag}: integer-normalisation switch is {payload['int']} after the call, model {a.get('int')}"
    if payload.get("lseed") is not None and int(a["lseed"]) != payload["lseed"]:
        return f"{tag}: library seed counter {payload['lseed']}, model {a['lseed']}"
    real = fmat(payload["x"]) if np.asarray(payload["x"]).size else []
    model = parse_matrix(a["X"])
    if tag == "unit":
        msg = near(model, real)
    else:
        msg = close_matrix(space, model, real, payload.get("u"))
    if msg:
        return f"{tag}: samples differ from the model: {msg}"
    if tag == "exec":
        us = fmat(payload["us"]) if np.asarray(payload["us"]).size else []
        msg = near_custom_unit(space, parse_matrix(a["U"]), us) if payload.get("custom") else near(parse_matrix(a["U"]), us)
        if msg:
            return f"exec: lib.unit_samples differ from the model: {msg}"
        msg = close_matrix(space, parse_matrix(a["S"]), real, payload.get("u"))
        if msg:
            return f"exec: lib.samples differ from the model: {msg}"
        if parse_matrix(a["S"]) == real and parse_matrix(a["db"]) != [[F(t) for t in k] for k in payload["db"]]:
            return "exec: database keys differ from the model's (first occurrences of the samples)"
    return None


# --------------------------------------------------------------------------- main stream: algorithms x spaces


def shrink_request(space, req, key: str):
    """Smaller failing input: fewer variables, smaller n, default options (re-validated by the oracle)."""

    def fails(sp, rq) -> bool:
        if not valid_request(sp, rq):
            return False
        try:
            return any(k == key for k, _ in oracle(sp, rq, run_impl(sp, rq, parallel=bool(rq.get("parallel")))))
        except Exception:  # noqa: BLE001
            return False

    cur_s, cur_r = space, req
    if req["algo"] == "CustomDOE":
        return shrink_custom(space, req, fails)
    if req["algo"] not in ("CustomDOE", "OATDOE") and not req["opts"].get("no_n"):
        r2 = dict(cur_r, opts={})
        if fails(cur_s, r2):
            cur_r = r2
    if cur_r["algo"] not in ("CustomDOE", "OATDOE") and not cur_r["opts"].get("levels") and not cur_r["opts"].get("reverse"):
        changed = True
        while changed and len(cur_s["vars"]) > 1:
            changed = False
            for i in range(len(cur_s["vars"])):
                s2 = dict(cur_s, vars=cur_s["vars"][:i] + cur_s["vars"][i + 1:])
                if space_dim(s2) >= ALGOS[cur_r["algo"]].get("min_dim", 1) and fails(s2, cur_r):
                    cur_s, changed = s2, True
                    break
        for n in (1, 2, 3, 5, 9):
            if n < cur_r["n"] and fails(cur_s, dict(cur_r, n=n)):
                cur_r = dict(cur_r, n=n)
                break
    if cur_s["int0"] and fails(dict(cur_s, int0=False), cur_r):
        cur_s = dict(cur_s, int0=False)
    return cur_s, cur_r


def custom_restrict(space, req, rows_kept=None, drop_var=None):
    """The CustomDOE case restricted to some samples / without one variable (orders and columns follow)."""
    opts = dict(req["opts"])
    rows = opts["samples"]
    orders = opts.get("orders")
    if rows_kept is not None:
        opts["samples"] = [rows[i] for i in rows_kept]
        if orders is not None and opts.get("form") == "dicts":
            opts["orders"] = [orders[i] for i in rows_kept]
    if drop_var is not None:
        start = 0
        for v in space["vars"]:
            if v["name"] == drop_var:
                lo, hi = start, start + len(v["lb"])
            start += len(v["lb"])
        opts["samples"] = [row[:lo] + row[hi:] for row in opts["samples"]]
        if opts.get("orders") is not None:
            opts["orders"] = [[n for n in o if n != drop_var] for o in opts["orders"]]
        space = dict(space, vars=[v for v in space["vars"] if v["name"] != drop_var])
    return space, dict(req, opts=opts, n=len(opts["samples"]))


def shrink_custom(space, req, fails):
    cur_s, cur_r = space, req
    for i in range(len(cur_r["opts"]["samples"])):  # one sample
        s2, r2 = custom_restrict(cur_s, cur_r, rows_kept=[i])
        if fails(s2, r2):
            cur_s, cur_r = s2, r2
            break
    changed = True
    while changed and len(cur_s["vars"]) > 1:  # fewer variables
        changed = False
        for v in cur_s["vars"]:
            s2, r2 = custom_restrict(cur_s, cur_r, drop_var=v["name"])
            if fails(s2, r2):
                cur_s, cur_r, changed = s2, r2, True
                break
    if cur_r["opts"].get("orders") is not None:  # is the key order needed?
        names = [v["name"] for v in cur_s["vars"]]
        r2 = dict(cur_r, opts=dict(cur_r["opts"], orders=[names] * len(cur_r["opts"]["orders"])))
        if fails(cur_s, r2):
            cur_r = r2
    if cur_r["opts"].get("int_dtype"):
        r2 = dict(cur_r, opts=dict(cur_r["opts"], int_dtype=False))
        if fails(cur_s, r2):
            cur_r = r2
    if cur_s["int0"] and fails(dict(cur_s, int0=False), cur_r):
        cur_s = dict(cur_s, int0=False)
    return cur_s, cur_r


def neighbours(space, req):
    if req["algo"] == "CustomDOE":
        # the same samples written in the other documented forms and key orders
        names = [v["name"] for v in space["vars"]]
        n_rows = len(req["opts"]["samples"])
        for form in ("array", "dict", "dicts"):
            for order in (names, names[::-1]):
                o = dict(req["opts"], form=form)
                o.pop("file", None)
                o["orders"] = [order] * (1 if form == "dict" else n_rows)
                yield space, dict(req, opts=o)
        yield dict(space, int0=not space["int0"]), req
        return
    for n in N_VALUES + [9, 30]:
        if n != req["n"]:
            yield space, dict(req, n=n)
    for s in (1, 2, 11):
        if ALGOS[req["algo"]]["seed"] is not None and s != req.get("seed"):
            yield space, dict(req, seed=s)
    yield dict(space, int0=not space["int0"]), req
    if req["opts"] and req["algo"] not in ("CustomDOE", "OATDOE"):
        yield space, dict(req, opts={})
    if len(space["vars"]) > 1 and req["algo"] not in ("CustomDOE", "OATDOE") and "levels" not in req["opts"] and "centers" not in req["opts"]:
        for i in range(len(space["vars"])):
            s2 = dict(space, vars=space["vars"][:i] + space["vars"][i + 1:])
            r2 = req
            if "reverse" in req["opts"]:
                r2 = dict(req, opts={})
            if space_dim(s2) >= ALGOS[req["algo"]].get("min_dim", 1):
                yield s2, r2


# The implementation side of the big streams runs in a small pool of worker processes (forked before anything is
# sampled in the main process).  No randomness in the workers; the results come back in the order of the inputs.
_POOL = None
POOL_SIZE = 4


def import_everything() -> None:
    """Import GEMSEO's DOE machinery and the third-party modules it loads lazily (imports only)."""
    import gemseo  # noqa: F401
    import pandas  # noqa: F401
    import scipy.stats.qmc  # noqa: F401
    from gemseo.algos.database import Database  # noqa: F401
    from gemseo.algos.optimization_problem import OptimizationProblem  # noqa: F401
    from gemseo.core.mdo_functions.mdo_function import MDOFunction  # noqa: F401

    factory().algorithms  # imports the module of every DOE library


def start_pool() -> None:
    global _POOL
    if _POOL is None and os.environ.get("C14_NO_POOL") != "1":
        import multiprocessing as mp

        tmp_dir()  # one scratch directory, created (and removed at exit) by the main process
        import_everything()  # the workers share the imported modules (no library object, no sample yet)
        _POOL = mp.get_context("fork").Pool(POOL_SIZE)


def stop_pool() -> None:
    global _POOL
    if _POOL is not None:
        _POOL.terminate()
        _POOL.join()
        _POOL = None


def pool_map(fn, items: list) -> list:
    if _POOL is None or len(items) < 2 * POOL_SIZE:
        return [fn(it) for it in items]
    return _POOL.map(fn, items, chunksize=max(1, min(8, len(items) // (4 * POOL_SIZE))))


def _impl_job(args) -> dict[str, Any]:
    """run_impl in a worker: an exception is returned (with where it was raised), not raised."""
    import traceback

    space, req = args
    try:
        return run_impl(space, req, parallel=bool(req.get("parallel")))
    except Exception as e:  # noqa: BLE001
        frames = traceback.extract_tb(e.__traceback__)
        return {"__raised__": {
            "exception": repr(e), "in_impl": any("/gemseo/" in f.filename for f in frames),
            "where": next((f"{f.filename.split('/gemseo/')[-1]}:{f.lineno}" for f in reversed(frames) if "/gemseo/" in f.filename), "?"),
            "traceback": traceback.format_exc()[-2500:]}}


def run_impl_many(cases: list[tuple[dict, dict]]) -> list[dict[str, Any]]:
    """Observations of the cases; those that execute with n_processes=2 stay in the main process (a pool worker
    may not have children)."""
    pooled = [k for k, (_, rq) in enumerate(cases) if not rq.get("parallel")]
    out: list[Any] = [None] * len(cases)
    for k, obs in zip(pooled, pool_map(_impl_job, [cases[k] for k in pooled])):
        out[k] = obs
    for k, case in enumerate(cases):
        if out[k] is None:
            out[k] = _impl_job(case)
    return out


def check_batch(res: Result, batch: list[tuple[dict, dict, str]], in_scope: bool) -> None:
    """batch: [(space, req, stream)].  Runs the implementation, the model, the oracle."""
    prepared = []
    all_lines: list[str] = []
    observations = run_impl_many([(space, req) for space, req, _ in batch])
    for (space, req, stream), obs in zip(batch, observations):
        if "__raised__" in obs:
            r = obs["__raised__"]
            if not r["in_impl"]:
                raise RuntimeError("harness error in a worker: " + r["traceback"])
            res.evaluations += 1
            res.violate("correspondence", "implementation-raises:run_impl",
                        f"{req['algo']}: the implementation raised {r['exception']} at {r['where']} outside the calls the "
                        "harness guards, on an input for which the model returns an answer",
                        {"space": space, "request": req, "stream": stream, "exception": r["exception"], "where": r["where"],
                         "traceback": r["traceback"]})
            continue
        lines = case_lines(space, req, obs)
        prepared.append((space, req, stream, obs, lines, len(all_lines)))
        all_lines.extend(ln for _, ln, _ in lines)
    answers = common.run_lean_driver(PID, all_lines) if all_lines else []
    for space, req, stream, obs, lines, off in prepared:
        res.evaluations += 1
        algo = req["algo"]
        d = space_dim(space)
        res.count(f"algo={algo}")
        res.count(f"dim={d}")
        res.count(f"n={req['n']}")
        res.count(f"stream={stream}")
        res.count("types=" + ("mixed" if len({v['int'] for v in space['vars']}) > 1 else ("int" if space['vars'][0]['int'] else "float")))
        res.count("int0=" + str(int(space["int0"])))
        res.count("outcome=" + ("ok" if obs["exc"] is None else "rejected:" + str(obs["exc"])))
        if "par_xs" in obs:
            res.count("parallel-execute")
        if algo == "CustomDOE":
            o = req["opts"]
            form = o.get("form", "array")
            res.count(f"custom-form={form}")
            if form in ("dict", "dicts") and len(space["vars"]) >= 2:
                names = [v["name"] for v in space["vars"]]
                other = [k for k in (o.get("orders") or []) if k != names]
                res.count(f"custom-{form}:" + ("key-order-differs-from-the-design-space-order" if other else "keys-in-the-design-space-order"))
                if form == "dicts" and len({tuple(k) for k in (o.get("orders") or [])}) > 1:
                    res.count("custom-dicts:different-key-orders-in-one-list")
                if len({len(v["lb"]) for v in space["vars"]}) > 1:
                    res.count(f"custom-{form}:variables-of-different-sizes")
        if obs["exc"] is None and obs["x1"] is not None and obs["x1"].shape[0] >= 2:
            res.nontrivial(json.dumps([varspecs(space), space["int0"], req], sort_keys=True, default=str))
        res.sample({"algo": algo, "n": req["n"], "seed": req.get("seed"), "opts": req["opts"], "space": varspecs(space),
                    "impl_samples": None if obs["x1"] is None else obs["x1"][:3].tolist(),
                    "protocol_line": lines[0][1][:300] if lines else None,
                    "model": answers[off][:200] if lines else None})
        bad = oracle(space, req, obs) if in_scope else []
        if in_scope:
            for key, msg in bad:
                s2, r2 = shrink_request(space, req, key)
                res.violate("oracle", key, msg, {"space": s2, "request": r2, "stream": stream})
        elif obs["exc"] is None:
            pb = [k for k, _ in oracle(space, req, obs)]
            for k in pb:
                res.count(f"probe-oracle:{algo}:{k}")
        # correspondence
        mism = None
        for (tag, _line, payload), ans in zip(lines, answers[off:off + len(lines)]):
            mism = compare_line(space, tag, ans, payload)
            if mism:
                break
        if mism is None:
            res.traces_validated += len(lines)
            continue
        res.disagreements += 1
        if not in_scope:
            res.count("probe-disagreement")
            res.notes.append(f"out-of-scope probe disagreement ({algo}): {mism}")
            continue
        if bad:
            continue
        found = False
        for s2, r2 in neighbours(space, req):
            if not valid_request(s2, r2):
                continue
            try:
                o2 = run_impl(s2, r2, parallel=bool(r2.get("parallel")))
                b2 = oracle(s2, r2, o2)
            except Exception:  # noqa: BLE001
                continue
            if b2:
                key, msg = b2[0]
                s3, r3 = shrink_request(s2, r2, key)
                res.violate("oracle", key, msg, {"space": s3, "request": r3, "stream": stream, "found_by": "failing-input search around a model/implementation disagreement"})
                found = True
                break
        if not found:
            res.violate("correspondence", "pipeline-model-vs-impl",
                        f"{algo}: implementation and Lean model of the DOE pipeline disagree ({mism}); no property-violating input found among the neighbours",
                        {"space": space, "request": req, "stream": stream, "mismatch": mism,
                         "protocol_lines": [ln for _, ln, _ in lines], "model": answers[off:off + len(lines)],
                         "correspondence": "Driver/C14.lean `doe`"})


def gen_request(rng: common.Rng, algo: str, space, n: int, seed) -> dict[str, Any]:
    req = {"algo": algo, "n": n, "seed": seed if ALGOS[algo]["seed"] is not None else None, "opts": {}}
    req["opts"] = gen_opts(rng, algo, space, n)
    if rng.chance(0.03):
        req["parallel"] = True  # also execute with n_processes=2 (in the main process: ~0.2 s per case; C13 owns that path)
    return req


def product_stream(ctx, res: Result) -> None:
    """Every algorithm x dimension 1-4 x n in {1,2,5,17} x 2 seeds (spaces and options random)."""
    rng = ctx.rng
    import time

    algos = list(ALGOS)
    reps = 10 if ctx.thorough else 2
    dims = (1, 2, 3, 4, 5) if ctx.thorough else (1, 2, 3, 4)
    for _ in range(reps):
        batch_in, batch_probe = [], []
        for algo in algos:
            meta = ALGOS[algo]
            for dim in dims:
                if dim < meta.get("min_dim", 1):
                    continue
                for n in N_VALUES:
                    for si in range(2):
                        if meta["seed"] is None and si == 1 and not ctx.thorough and meta["family"] not in ("custom", "oat", "morris", "diagonal"):
                            continue
                        stream = "exact" if rng.chance(0.5) else "rounded"
                        space = gen_space(rng, dim, stream)
                        seed = pick_seed(rng, algo) if (si == 0 or rng.chance(0.7)) else None
                        req = gen_request(rng, algo, space, n, seed)
                        (batch_in if meta.get("scope", "in") == "in" else batch_probe).append((space, req, stream))
        for i in range(0, len(batch_in), 450):  # one call of the Lean driver costs ~3 s whatever its size
            if time.time() > ctx.deadline:
                res.notes.append("deadline reached in the product stream")
                return
            check_batch(res, batch_in[i:i + 450], True)
        check_batch(res, batch_probe, False)


def custom_stream(ctx, res: Result) -> None:
    """CustomDOE on spaces with several variables of different sizes, types and (mostly disjoint) bounds, its
    samples written in every documented form and in key orders that differ from the design-space order."""
    rng = ctx.rng
    batch = []
    for _ in range(160 if ctx.thorough else 48):
        dim = rng.randint(2, 5)
        stream = "exact" if rng.chance(0.5) else "rounded"
        for _ in range(5):
            space = gen_space(rng, dim, stream)
            if len(space["vars"]) >= 2:
                break
        n = rng.pick([1, 2, 3, 5])
        req = {"algo": "CustomDOE", "n": n, "seed": None, "opts": gen_opts(rng, "CustomDOE", space, n)}
        if valid_request(space, req):
            batch.append((space, req, stream))
    for i in range(0, len(batch), 60):
        check_batch(res, batch[i:i + 60], True)


# --------------------------------------------------------------------------- seeder streams


def seeder_stream(ctx, res: Result) -> None:
    from gemseo.utils.seeder import Seeder

    rng = ctx.rng
    lines, cases = [], []
    for _ in range(400 if ctx.thorough else 120):
        s0 = rng.pick([0, 0, 1, 5, -3, 10**6])
        reqs = [None if rng.chance(0.55) else rng.pick([0, 1, 2, 7, 7, 123, -1]) for _ in range(rng.randint(0, 8))]
        cases.append((s0, reqs))
        lines.append(f"seeder {s0} " + (",".join("_" if r is None else str(r) for r in reqs) or "[]"))
    answers = common.run_lean_driver(PID, lines)
    for (s0, reqs), line, ans in zip(cases, lines, answers):
        res.evaluations += 1
        res.count("seeder-sequence")
        s = Seeder(s0) if s0 != 0 or rng.chance(0.5) else Seeder()
        got = [s.get_seed(r) if r is not None or rng.chance(0.5) else s.get_seed() for r in reqs]
        final = s.default_seed
        # oracle (documentation of get_seed): i-th call returns the explicit seed, else initial + i
        want = [r if r is not None else s0 + i + 1 for i, r in enumerate(reqs)]
        if got != want or final != s0 + len(reqs):
            res.violate("oracle", "seeder", f"Seeder({s0}) answered {got} (final {final}) to {reqs}; documented {want}",
                        {"seeder": {"initial": s0, "requests": reqs}})
        impl = f"final={final} seeds=" + (",".join(str(k) for k in got) or "[]")
        if len(reqs) >= 2:
            res.nontrivial(line)
        if impl != ans:
            res.disagreements += 1
            if got == want:
                res.violate("correspondence", "seeder-model-vs-impl", "Seeder differs from the model",
                            {"protocol_line": line, "impl": impl, "model": ans, "correspondence": "Driver/C14.lean `seeder`"})
        else:
            res.traces_validated += 1


SEEDED_FOR_SEQ = ["MC", "LHS", "Halton", "Sobol", "OT_MONTE_CARLO", "OT_LHS", "OT_OPT_LHS", "OT_LHSC", "OT_RANDOM",
                  "PYDOE_LHS", "OT_SOBOL_INDICES", "PoissonDisk"]


def library_seed_stream(ctx, res: Result) -> None:
    """A library used several times: the seed counter, default seeds and explicit seeds.

    Oracle (property text + Seeder documentation): two generations with the same effective seed are
    equal, whatever the history of the library; a default seed is `initial + number of calls so far`.
    """
    rng = ctx.rng
    fac = factory()
    lines, cases = [], []
    for algo in SEEDED_FOR_SEQ:
        for _ in range(4 if ctx.thorough else 2):
            dim = rng.randint(1, 3)
            space = gen_space(rng, dim, "exact")
            n = 24 if algo == "OT_SOBOL_INDICES" else rng.pick([5, 8, 12])
            seq = [None if rng.chance(0.45) else pick_seed(rng, algo, [0, 0, 1, 2, 3, 7]) for _ in range(rng.randint(3, 6))]
            use_exec = [rng.chance(0.3) for _ in seq]
            cases.append((algo, space, n, seq, use_exec))
            lines.append("seeder 0 " + ",".join("_" if r is None else str(r) for r in seq))
    answers = common.run_lean_driver(PID, lines)
    for (algo, space, n, seq, use_exec), line, ans in zip(cases, lines, answers):
        res.evaluations += 1
        res.count("library-seed-sequence")
        res.count(f"seedseq-algo={algo}")
        if 0 in seq:
            res.count("seedseq-with-explicit-seed-0" + ("-repeated" if seq.count(0) > 1 else ""))
        bad, counters, eff = run_seed_sequence(algo, space, n, seq, use_exec)
        for key, msg in bad:
            res.violate("oracle", key, msg, {"space": space, "algo": algo, "n": n, "seed_sequence": seq, "exec_calls": use_exec})
        if counters is None:
            continue
        a = parse_answer(ans)
        res.nontrivial(line + algo)
        if a.get("seeds") != ",".join(str(k) for k in eff) or int(a.get("final", -1)) != counters[-1]:
            res.disagreements += 1
            if not bad:
                res.violate("correspondence", "seeder-model-vs-impl", "library seed sequence differs from the model",
                            {"protocol_line": line, "impl": {"effective": eff, "counter": counters}, "model": ans})
        else:
            res.traces_validated += 1


def run_seed_sequence(algo, space, n, seq, use_exec):
    """One library object used for the calls `seq` (None = default seed): (failures, counters, effective seeds).

    Oracle: call i equals the generation of a *fresh* library with the effective seed made explicit
    (explicit seed, else initial + i + 1), and every pair of calls with the same effective seed is equal."""
    from gemseo.algos.optimization_problem import OptimizationProblem
    from gemseo.core.mdo_functions.mdo_function import MDOFunction

    fac = factory()
    lib = fac.create(algo)
    ds = build_space(space)
    outs, counters = [], []
    eff = [s if s is not None else i + 1 for i, s in enumerate(seq)]
    try:
        for s, ex in zip(seq, use_exec):
            req = {"algo": algo, "n": n, "seed": s, "opts": {}}
            if ex:
                pb = OptimizationProblem(build_space(space))
                pb.objective = MDOFunction(_objective, "f")
                lib.execute(pb, **settings_of(space, req))
                outs.append(np.array(lib.samples))
            else:
                outs.append(np.array(lib.compute_doe(ds, **settings_of(space, req))))
            counters.append(lib.seed)
        # references: a fresh library and an explicit seed
        refs = {}
        for k in sorted(set(eff)):
            refs[k] = np.array(fac.create(algo).compute_doe(build_space(space), **settings_of(space, {"algo": algo, "n": n, "seed": k, "opts": {}})))
    except Exception as e:  # noqa: BLE001
        return [("valid-request-rejected", f"{algo}: seeded sequence raised {e!r}"[:300])], None, eff
    bad = []
    for i, (x, k) in enumerate(zip(outs, eff)):
        if x.shape != refs[k].shape or not np.array_equal(x, refs[k]):
            bad.append(("seed-semantics", f"{algo}: call {i} of the sequence {seq} (effective seed {k}) differs from a fresh library with seed={k}"))
            break
    for i in range(len(outs)):
        j = next((j for j in range(i) if eff[j] == eff[i]), None)
        if j is not None and (outs[i].shape != outs[j].shape or not np.array_equal(outs[i], outs[j])):
            bad.append(("not-reproducible", f"{algo}: calls {j} and {i} of the sequence {seq} on one library have the same settings and seed {eff[i]} but differ"))
            break
    if counters != [i + 1 for i in range(len(seq))]:
        bad.append(("seed-counter", f"{algo}: library seed counter {counters} after the calls {seq}"))
    return bad, counters, eff


# --------------------------------------------------------------------------- count rules and own designs


def count_stream(ctx, res: Result) -> None:
    """Count rules on the unit hypercube for n = 1..N, d = 1..5, and the level computation on large n."""
    from gemseo.algos.doe.base_full_factorial_doe import BaseFullFactorialDOE

    rng = ctx.rng
    fac = factory()
    table = [("fullfact", "PYDOE_FULLFACT"), ("fullfact", "OT_FULLFACT"), ("diagonal", "DiagonalDOE"), ("morris", "MorrisDOE"),
             ("axial", "OT_AXIAL"), ("factorial", "OT_FACTORIAL"), ("composite", "OT_COMPOSITE"), ("sobolidx", "OT_SOBOL_INDICES")]
    nmax = 70 if ctx.thorough else 40
    lines, cases = [], []
    for fam, algo in table:
        for d in (1, 2, 3, 4, 5):
            ns = list(range(1, nmax + 1)) if ctx.thorough or fam in ("fullfact",) else sorted(set(rng.sample(range(1, nmax + 1), 14)) | {1, 2, 2 * d + 1, 2 * d + 2})
            for n in ns:
                flag = ""
                opts: dict[str, Any] = {}
                if fam == "sobolidx":
                    second = rng.chance(0.5)
                    flag = " 1" if second else " 0"
                    opts["eval_second_order"] = second
                cases.append((fam, algo, n, d, opts))
                lines.append(f"count {fam} {n} {d}{flag}")
    answers = common.run_lean_driver(PID, lines)
    libs: dict[str, Any] = {}
    for (fam, algo, n, d, opts), line, ans in zip(cases, lines, answers):
        res.evaluations += 1
        res.count(f"count-rule={fam}")
        lib = libs.setdefault(algo, fac.create(algo))
        try:
            got = str(np.asarray(lib.compute_doe(d, n_samples=n, **opts)).shape[0])
        except Exception:  # noqa: BLE001
            got = "E"
        space = {"int0": False, "vars": [{"name": "x", "int": False, "lb": ["0"] * d, "ub": ["1"] * d, "value": None}]}
        req = {"algo": algo, "n": n, "seed": None, "opts": opts}
        _, want = documented_count(space, req)
        want_s = "E" if want is None else str(want)
        if n >= 2:
            res.nontrivial(line + algo)
        if got != want_s or (got != "E" and not int(got) <= n):
            res.violate("oracle", count_key(space, req), f"{algo}: {got} samples for n_samples={n} in dimension {d}; documented {want_s}",
                        {"space": space, "request": req, "stream": "count"})
        if got != ans:
            res.disagreements += 1
            if got == want_s:
                res.violate("correspondence", "count-model-vs-impl", f"{algo}: count differs from the model",
                            {"protocol_line": line, "impl": got, "model": ans, "correspondence": "Driver/C14.lean `count`"})
        else:
            res.traces_validated += 1
    # levels of the full-factorial design on large requests (pure function of the code)
    lines, cases = [], []
    for _ in range(4000 if ctx.thorough else 600):
        d = rng.randint(1, 8)
        k = rng.randint(1, rng.pick([5, 40, 1000, 30000]))
        n = max(1, k**d + rng.pick([-1, 0, 0, 1, rng.randint(-5, 5), rng.randint(0, k)]))
        if n > 10**12:
            continue
        cases.append((n, d))
        lines.append(f"levels {n} {d}")
    answers = common.run_lean_driver(PID, lines)
    for (n, d), line, ans in zip(cases, lines, answers):
        res.evaluations += 1
        res.count("fullfact-levels")
        lev = BaseFullFactorialDOE._compute_fullfact_levels(n, d)
        k = int(lev[0])
        res.nontrivial(line)
        if len(lev) != d or any(int(t) != k for t in lev) or not (k**d <= n < (k + 1) ** d):
            res.violate("oracle", "fullfact-levels", f"levels {list(lev)} for n_samples={n}, dimension={d}: not the largest d-th power <= n",
                        {"fullfact_levels": {"n": n, "d": d}})
        if str(k) != ans:
            res.disagreements += 1
            if k**d <= n < (k + 1) ** d:
                res.violate("correspondence", "levels-model-vs-impl", "full-factorial levels differ from the model",
                            {"protocol_line": line, "impl": k, "model": ans})
        else:
            res.traces_validated += 1


def own_designs_stream(ctx, res: Result) -> None:
    """Unit designs computed by GEMSEO itself, compared with the model's own output."""
    import openturns as ot
    from pyDOE3.doe_factorial import ff2n

    rng = ctx.rng
    fac = factory()
    items: list[tuple[str, str, Any, bool]] = []  # (kind, line, real matrix, exact)
    reps = 60 if ctx.thorough else 15
    for _ in range(reps):
        d = rng.randint(1, 4)
        # diagonal
        n = rng.pick([2, 3, 5, 9, 17, 6, 10])
        rev = [rng.chance(0.3) for _ in range(d)]
        real = fac.create("DiagonalDOE").compute_doe(d, n_samples=n, reverse=[str(i) for i, r in enumerate(rev) if r])
        items.append(("diag", f"diag {n} {''.join('1' if r else '0' for r in rev)}", real, (n - 1) & (n - 2) == 0))
        # OAT / Morris
        step = rng.pick([Fraction(1, 20), Fraction(1, 4), Fraction(1, 2), Fraction(1, 8), Fraction(3, 8)])
        x0 = [Fraction(rng.randint(0, 16), 16) for _ in range(d)]
        real = fac.create("OATDOE").compute_doe(d, unit_sampling=True, initial_point=np.array([float(t) for t in x0]), step=float(step))
        items.append(("oat", f"oat {rat(F(float(step)))} {','.join(rat(t) for t in x0)}", real, step.denominator != 20))
        nm = rng.pick([d + 1, 2 * (d + 1), 3 * (d + 1) + 1])
        inner = rng.pick(["PYDOE_LHS", "MC", "OT_HALTON"])
        real = fac.create("MorrisDOE").compute_doe(d, n_samples=nm, step=float(step), doe_algo_name=inner)
        inits = [real[i] for i in range(0, real.shape[0], d + 1)]
        items.append(("morris", f"morris {rat(F(float(step)))} | " + rows_str(fmat(inits)), real, False))
        # full-factorial post-processing
        levels = [rng.pick([1, 2, 3, 4, 5]) for _ in range(d)]
        real = fac.create("PYDOE_FULLFACT").compute_doe(d, levels=levels)
        items.append(("ffgrid", f"ffgrid {','.join(map(str, levels))}", real, False))
        real = fac.create("OT_FULLFACT").compute_doe(d, levels=levels)
        items.append(("ffgrid-ot", f"ffgrid {','.join(map(str, levels))}", real, False))
        kept = [l - 2 for l in levels if l >= 2]
        if kept:
            box = np.array(ot.Box(kept).generate())
            items.append(("otff", f"otff {','.join(map(str, levels))} | " + rows_str(fmat(box)), real, False))
        real = fac.create("PYDOE_FF2N").compute_doe(d)
        items.append(("scale", "scale | " + rows_str(fmat(ff2n(d))), real, True))
        # stratified designs: user's centres and levels
        cs = [rng.pick([Fraction(1, 2), Fraction(1, 4), Fraction(3, 4), Fraction(1, 8)]) for _ in range(d)]
        lv = sorted({rng.pick([Fraction(1, 4), Fraction(1, 2), Fraction(1), Fraction(3, 4)]) for _ in range(rng.randint(1, 3))})
        for name, cls in (("OT_AXIAL", ot.Axial), ("OT_FACTORIAL", ot.Factorial), ("OT_COMPOSITE", ot.Composite)):
            real = fac.create(name).compute_doe(d, levels=[float(t) for t in lv], centers=[float(t) for t in cs])
            raw = np.array(cls(np.full(d, 0.5), np.array([float(t) for t in lv]) / 2).generate())
            items.append(("strat", f"strat {','.join(rat(t) for t in cs)} | " + rows_str(fmat(raw)), real, True))
        # levels deduced from n_samples
        L = rng.randint(1, 4)
        real = fac.create("OT_AXIAL").compute_doe(d, n_samples=1 + 2 * d * L)
        raw = None
        items.append(("stratlevels", f"stratlevels {L}", np.array(sorted({float(t) - 0.5 for t in real[:, 0] if t > 0.5})).reshape(1, -1), False))
        # centred LHS
        n = rng.pick([2, 3, 5, 8, 17])
        seed = rng.randint(1, 99)
        real = fac.create("OT_LHSC").compute_doe(d, n_samples=n, seed=seed)
        raw = fac.create("OT_LHS").compute_doe(d, n_samples=n, seed=seed)
        items.append(("lhsc", f"lhsc {n} | " + rows_str(fmat(raw)), real, False))
    answers = common.run_lean_driver(PID, [ln for _, ln, _, _ in items])
    for (kind, line, real, exact), ans in zip(items, answers):
        res.evaluations += 1
        res.count(f"own-design={kind}")
        res.nontrivial(line[:200])
        model = parse_matrix(ans) if ans not in ("bad-op",) else None
        R = fmat(real)
        if kind == "stratlevels":
            model = [model[0]] if model else model
        msg = "model could not parse the line" if model is None else (None if (model == R) else (near(model, R) if not exact else "exact comparison failed: " + str(near(model, R))))
        unit_ok = all(0 <= t <= 1 for row in R for t in row)
        if kind != "stratlevels" and not unit_ok:
            res.violate("oracle", "unit-design-outside-hypercube", f"{kind}: a unit design of GEMSEO leaves [0,1]: {line[:120]}",
                        {"own_design": {"kind": kind, "protocol_line": line}})
        if msg:
            res.disagreements += 1
            res.violate("correspondence", f"own-design-{kind}", f"unit design `{kind}` differs from the model: {msg}",
                        {"protocol_line": line, "impl": mat_str(R)[:600], "model": ans[:600], "correspondence": f"Driver/C14.lean `{line.split(' ')[0]}`"})
        else:
            res.traces_validated += 1


def view_stream(ctx, res: Result) -> None:
    """Variable order / index ranges / boundedness of generated spaces (model `view`), and the per-variable
    form of the map (`untr`) against the implementation's `untransform_vect` + `convert_array_to_dict`."""
    rng = ctx.rng
    lines, cases = [], []
    for _ in range(200 if ctx.thorough else 60):
        dim = rng.randint(1, 5)
        space = gen_space(rng, dim, rng.pick(["exact", "rounded"]))
        u = [[Fraction(rng.randint(0, 64), 64) for _ in range(dim)] for _ in range(3)]
        cases.append((space, u))
        lines.append(f"view {varspecs(space)}")
        lines.append(f"untr {varspecs(space)} | " + rows_str(u))
    answers = common.run_lean_driver(PID, lines)
    for i, (space, u) in enumerate(cases):
        res.evaluations += 1
        res.count("view")
        ds = build_space(space)
        n2i = ds.names_to_indices
        idx = ",".join(f"{n}:{n2i[n].start}:{n2i[n].stop}" for n in ds.variable_names)
        a = parse_answer(answers[2 * i])
        want_names = [v["name"] for v in space["vars"]]
        starts, s = [], 0
        for v in space["vars"]:
            starts.append(f"{v['name']}:{s}:{s + len(v['lb'])}")
            s += len(v["lb"])
        if list(ds.variable_names) != want_names or idx != ",".join(starts):
            res.violate("oracle", "variable-order", f"design space order {list(ds.variable_names)} / ranges {idx}", {"space": space})
        if a.get("idx") != idx or a.get("dim") != str(ds.dimension) or a.get("bounded") != "1" or a.get("unbounded") != "[]":
            res.disagreements += 1
            res.violate("correspondence", "view-model-vs-impl", "design-space view differs from the model",
                        {"space": space, "impl": idx, "model": answers[2 * i]})
            continue
        ds.enable_integer_variables_normalization = True
        real = ds.untransform_vect(np.array([[float(t) for t in row] for row in u]), no_check=True)
        ds.enable_integer_variables_normalization = space["int0"]
        msg = close_matrix(space, parse_matrix(answers[2 * i + 1]), fmat(real), u)
        res.nontrivial(lines[2 * i + 1][:200])
        if msg:
            res.disagreements += 1
            res.violate("correspondence", "untransform-model-vs-impl", f"untransform_vect differs from the per-variable model: {msg}",
                        {"space": space, "protocol_line": lines[2 * i + 1], "model": answers[2 * i + 1]})
        else:
            res.traces_validated += 2


# --------------------------------------------------------------------------- out-of-scope probes


def probe_stream(ctx, res: Result) -> None:
    """Error paths: unbounded spaces, invalid settings, failing samplers; state after the exception."""
    rng = ctx.rng
    fac = factory()
    lines, cases = [], []
    for _ in range(60 if ctx.thorough else 24):
        dim = rng.randint(1, 3)
        space = gen_space(rng, dim, "exact")
        kind = rng.pick(["unbounded", "settings", "sampler"])
        algo = rng.pick(["MC", "OT_AXIAL", "DiagonalDOE", "LHS", "MorrisDOE", "OT_COMPOSITE"])
        ds = build_space(space)
        kw: dict[str, Any] = {"n_samples": 5}
        rows: Any = []
        ok = True
        if kind == "unbounded":
            v = space["vars"][0]
            ds.set_upper_bound(v["name"], np.full(len(v["lb"]), np.inf))
            sp2 = dict(space, vars=[dict(v, ub=["_"] * len(v["lb"]), value=None), *space["vars"][1:]])
            if v["value"] is not None:
                continue
            line_space = sp2
        elif kind == "settings":
            kw = {"n_samples": -3}
            ok = False
            line_space = space
        else:
            algo = rng.pick(["OT_AXIAL", "MorrisDOE", "OT_COMPOSITE", "OT_FACTORIAL"])
            kw = {"n_samples": 1}
            rows = None
            line_space = space
        lib = fac.create(algo)
        try:
            lib.compute_doe(ds, **kw)
            out = "ok"
        except Exception as e:  # noqa: BLE001
            out = common.exc_class(e)
        cases.append((kind, algo, out, bool(ds.enable_integer_variables_normalization), space["int0"], lib.seed))
        req = {"algo": algo, "n": 5, "seed": None, "opts": {}}
        lines.append(doe_line(line_space, req, "compute", rows, ok=ok))
    answers = common.run_lean_driver(PID, lines) if lines else []
    for (kind, algo, out, int_after, int0, lseed), line, ans in zip(cases, lines, answers):
        res.evaluations += 1
        res.count(f"probe-error-path={kind}")
        a = parse_answer(ans)
        model_fail = a.get("res", "").startswith("E:")
        if (out != "ok") != model_fail or (a.get("int") == "1") != int_after:
            res.count("probe-disagreement")
            res.notes.append(f"out-of-scope probe ({kind}, {algo}): implementation {out}, switch {int_after} (initially {int0}); model {ans[:60]}")
        else:
            res.count("probe-agreement")


# --------------------------------------------------------------------------- corpus / run / replay


def guarded(stream, ctx, res: Result) -> None:
    """Run a stream; an exception raised *inside the implementation* on an input the stream considers valid is a
    finding (the model and the oracle expect an answer), an exception of the harness itself is re-raised (exit 2)."""
    import traceback

    try:
        stream(ctx, res)
    except Exception as e:  # noqa: BLE001
        frames = traceback.extract_tb(e.__traceback__)
        in_impl = any("/gemseo/" in f.filename for f in frames)
        if not in_impl:
            raise
        where = next((f"{f.filename.split('/gemseo/')[-1]}:{f.lineno}" for f in reversed(frames) if "/gemseo/" in f.filename), "?")
        res.violate("correspondence", f"implementation-raises:{stream.__name__}",
                    f"the implementation raised {e!r} at {where} on an input of the stream `{stream.__name__}` "
                    "for which the model returns an answer",
                    {"stream": stream.__name__, "exception": repr(e), "where": where,
                     "traceback": traceback.format_exc()[-2500:],
                     "correspondence": "the Lean model is total on this input; the implementation is not"})


def load_corpus() -> list[dict[str, Any]]:
    d = common.CORPUS_DIR / PID
    out = []
    if d.is_dir():
        for p in sorted(d.glob("*.json")):
            out.append(json.loads(p.read_text()))
    return out


def run(ctx) -> Result:
    res = Result(PID)
    res.rule = (
        "main stream: every algorithm of DOELibraryFactory x dimension 1-4 x n in {1,2,5,17} x 2 seeds on random bounded "
        "spaces (asymmetric, often pairwise disjoint bounds; float/integer/mixed; optional current value; switch on/off; "
        "random algorithm options), each generated 3 times via compute_doe (+ unit sampling) and once via execute; "
        "non-trivial = at least 2 samples generated, distinct by (space, request); side streams: Seeder sequences, library "
        "seed sequences (explicit seeds include 0), count rules n=1..40(70) x d=1..5, full-factorial levels up to 1e12, "
        "GEMSEO's own unit designs, design-space views; session stream: 90 (320) histories on ONE design-space object and "
        "ONE library object (DOE / query, then edits that move, add, remove, retype, rebound or rename variables, then "
        "DOEs again; compute_doe, unit sampling and execute; seeds 0 / explicit / default), non-trivial = at least 2 DOEs; "
        "custom stream: 48 (160) CustomDOE cases on spaces with >= 2 variables, samples written as array / dictionary of "
        "2-D arrays / list of dictionaries (key orders: design-space order, reversed, shuffled, one per dictionary) / file; "
        "process-history stream: 44 (160) histories of 3-7 generations by different algorithms and library objects in ONE "
        "pristine process (themes: the five OpenTURNS sequences, QMC mix, OpenTURNS algorithms sharing the global "
        "generator, one algorithm repeated, any), each step compared with the same request run alone in another pristine "
        "process, non-trivial = at least 2 steps"
    )
    res.assumptions = [
        "third-party samplers return points of [0,1]^d, the requested number of points, and are functions of their seed (validated per run by the oracle on the real outputs)",
        "in-scope algorithms (property quantifier: designed to fill the domain): " + ", ".join(IN_SCOPE),
        "out-of-scope probe stream: PYDOE_BBDESIGN, PYDOE_CCDESIGN (star points outside the bounds by design), PYDOE_PBDESIGN, error paths, unbounded spaces",
        "PoissonDisk: SciPy may return fewer than n_samples points when the domain is saturated (count clause: <= n)",
        "default-seed generations are compared through effective seeds (a second call on the same library legitimately uses the next seed)",
        "CustomDOE: samples given inside the bounds, integer components integral; bounds compared with a 2^-40 slack (normalize/unnormalize round trip in floats)",
        "OATDOE/MorrisDOE: relative step <= 1/2 (a larger step can leave the unit hypercube by construction)",
    ]
    from harness import c14_proc
    from harness import c14_session

    start_pool()  # worker processes of the implementation side, forked before anything is sampled here
    c14_proc.SERVER.start()  # fork server of pristine processes: its import of GEMSEO overlaps with the first streams
    res.assumptions.append(
        "process histories: every history runs in a child of a fork server that has imported GEMSEO and the DOE "
        "libraries and sampled nothing (harness/c14_fresh.py); the reference of a step is the same request run as the "
        "only generation of another such child; an unavailable server is an infrastructure failure (exit 2), never a verdict")
    res.assumptions.append(
        "sessions: edits keep the design space bounded and non-empty, the current value inside the bounds (a `setval` "
        "follows every execute, which stores the best point as current value); the unit samples fed to the model for a "
        "compute_doe of a session are those of a fresh library on a fresh design space with the effective seed made explicit")
    import time

    walls: list[str] = []
    for c in load_corpus():
        if "space" in c and "request" in c:
            check_batch(res, [(c["space"], c["request"], c.get("stream", "corpus"))], c.get("in_scope", True))
            res.count("corpus")
        elif "session" in c:
            c14_session.check_sessions(res, [c["session"]])
            res.count("corpus")
        # corpus entries with a "process_history" are run first by c14_proc.prochist_stream (the fork server is
        # still importing GEMSEO at this point)
    for stream in (view_stream, seeder_stream, count_stream, own_designs_stream, library_seed_stream, probe_stream,
                   custom_stream, c14_proc.prochist_stream, c14_session.session_stream, product_stream):
        t0 = time.time()
        guarded(stream, ctx, res)
        walls.append(f"{stream.__name__} {time.time() - t0:.0f} s")
    stop_pool()
    res.notes.append("wall per stream: " + ", ".join(walls))
    return res


def replay(path: str) -> int:
    data = json.loads(open(path).read())
    rp = data.get("replay", data)
    common.quiet_gemseo()
    if "space" in rp and "request" in rp:
        space, req = rp["space"], rp["request"]
        obs = run_impl(space, req, parallel=bool(req.get("parallel")))
        bad = oracle(space, req, obs)
        print("space:", varspecs(space), "int0 =", space["int0"])
        print("request:", req)
        print("impl: exc =", obs["exc_msg"], "samples =", None if obs["x1"] is None else obs["x1"].tolist()[:6])
        lines = case_lines(space, req, obs)
        if lines:
            ans = common.run_lean_driver(PID, [ln for _, ln, _ in lines])
            for (tag, _ln, payload), a in zip(lines, ans):
                print(f"model[{tag}]:", a[:300])
                print("  correspondence:", compare_line(space, tag, a, payload) or "agrees")
        for k, m in bad:
            print("ORACLE FAILS:", k, m)
        return 1 if bad else 0
    if "session" in rp:
        from harness import c14_session

        return c14_session.replay_session(rp)
    if "process_history" in rp:
        from harness import c14_proc

        return c14_proc.replay_history(rp)
    if "seeder" in rp:
        from gemseo.utils.seeder import Seeder

        s = Seeder(rp["seeder"]["initial"])
        got = [s.get_seed(r) for r in rp["seeder"]["requests"]]
        want = [r if r is not None else rp["seeder"]["initial"] + i + 1 for i, r in enumerate(rp["seeder"]["requests"])]
        print("impl:", got, "documented:", want)
        return 1 if got != want else 0
    if "fullfact_levels" in rp:
        from gemseo.algos.doe.base_full_factorial_doe import BaseFullFactorialDOE

        n, d = rp["fullfact_levels"]["n"], rp["fullfact_levels"]["d"]
        k = int(BaseFullFactorialDOE._compute_fullfact_levels(n, d)[0])
        ok = k**d <= n < (k + 1) ** d
        print(f"levels({n},{d}) = {k}; largest power <= n: {ok}")
        return 0 if ok else 1
    if "seed_sequence" in rp:
        seq = rp["seed_sequence"]
        bad, counters, eff = run_seed_sequence(rp["algo"], rp["space"], rp["n"], seq, rp.get("exec_calls") or [False] * len(seq))
        print("library", rp["algo"], "on", varspecs(rp["space"]), "n =", rp["n"], "seeds", seq, "effective", eff, "counters", counters)
        for k, m in bad:
            print("ORACLE FAILS:", k, m)
        return 1 if bad else 0
    print(json.dumps(rp, indent=1, default=str)[:3000])
    return 1
