"""C03 — translator: the termination-exception table of the drivers.

Regenerates `lean/GemseoVerif/Gen/C03Term.lean` from the *current* sources of the imported gemseo with `ast`:

* `classes`  — every exception class defined in `algos/stop_criteria.py` with its (first) base class;
* `raised`   — the classes that the code under `algos/` raises to stop a run: `raise X`, `raise X(...)`,
               and, for `raise self.termination_criterion`, the defaults of the `termination_criterion` fields of
               the tolerance testers;
* `caught`   — the classes named by the `except` clause that protects `self._pre_run` / `self._run` in
               `BaseDriverLibrary.execute` (the handler that builds the early-stopping result);
* `described`— the classes tested by `isinstance` in `_get_early_stopping_result` (informational: the message);
* `handlerBuildsResult` — whether that handler calls `_get_early_stopping_result` and that function returns
               `self._get_result(...)`.

`Props/C03.lean` proves from this table that every raised class is a subclass of a caught class
(`raised_all_caught`, by `decide` over the generated table) — "whichever termination criterion fires first, the
driver still returns a result instead of raising". A class whose base is changed, an `except` clause that is
narrowed, or a new raise site of a class outside the family breaks that proof obligation.

Anything outside the grammar above is refused (the table then lacks the entry and the obligation fails).
"""

from __future__ import annotations

import ast
from pathlib import Path

from harness import common

GEN = common.LEAN_DIR / "GemseoVerif" / "Gen" / "C03Term.lean"


def algos_dir() -> Path:
    import gemseo

    return Path(gemseo.__file__).resolve().parent / "algos"


def _name(e: ast.AST) -> str | None:
    if isinstance(e, ast.Name):
        return e.id
    if isinstance(e, ast.Attribute):
        return e.attr
    return None


def extract() -> dict:
    adir = algos_dir()
    sc = ast.parse((adir / "stop_criteria.py").read_text())
    classes: list[tuple[str, str]] = []
    tester_defaults: list[str] = []
    for node in sc.body:
        if isinstance(node, ast.ClassDef):
            base = _name(node.bases[0]) if node.bases else "object"
            is_exc = base in {c for c, _ in classes} or base in ("Exception", "BaseException")
            if is_exc:
                classes.append((node.name, base or "?"))
            # dataclass field: termination_criterion: ... = field(default=X, init=False)
            for st in node.body:
                if (
                    isinstance(st, ast.AnnAssign)
                    and isinstance(st.target, ast.Name)
                    and st.target.id == "termination_criterion"
                    and st.value is not None
                ):
                    v = st.value
                    if isinstance(v, ast.Call):
                        for kw in v.keywords:
                            if kw.arg == "default":
                                n = _name(kw.value)
                                if n:
                                    tester_defaults.append(n)
                    else:
                        n = _name(v)
                        if n:
                            tester_defaults.append(n)
    family = {c for c, _ in classes}
    raised: list[str] = []
    sites: list[str] = []
    for py in sorted(adir.rglob("*.py")):
        try:
            tree = ast.parse(py.read_text())
        except SyntaxError:
            continue
        for node in ast.walk(tree):
            if isinstance(node, ast.Raise) and node.exc is not None:
                exc = node.exc.func if isinstance(node.exc, ast.Call) else node.exc
                n = _name(exc)
                if n in family:
                    raised.append(n)
                    sites.append(f"{py.relative_to(adir)}:{node.lineno}:{n}")
                elif n == "termination_criterion":
                    raised.extend(tester_defaults)
                    sites.append(f"{py.relative_to(adir)}:{node.lineno}:termination_criterion={'|'.join(tester_defaults)}")
    raised = sorted(set(raised))
    # the except clause protecting _pre_run/_run in BaseDriverLibrary.execute
    bdl = ast.parse((adir / "base_driver_library.py").read_text())
    caught: list[str] = []
    described: list[str] = []
    handler_builds = False
    early_returns_result = False
    for cls in bdl.body:
        if not (isinstance(cls, ast.ClassDef) and cls.name == "BaseDriverLibrary"):
            continue
        for fn in cls.body:
            if not isinstance(fn, ast.FunctionDef):
                continue
            if fn.name == "execute":
                for node in ast.walk(fn):
                    if not isinstance(node, ast.Try):
                        continue
                    calls = {
                        _name(c.func)
                        for b in node.body
                        for c in ast.walk(b)
                        if isinstance(c, ast.Call)
                    }
                    if "_run" not in calls:
                        continue
                    for h in node.handlers:
                        types = h.type.elts if isinstance(h.type, ast.Tuple) else [h.type]
                        names = [_name(t) for t in types if t is not None]
                        hcalls = {_name(c.func) for b in h.body for c in ast.walk(b) if isinstance(c, ast.Call)}
                        reraises = any(isinstance(x, ast.Raise) for b in h.body for x in ast.walk(b))
                        if "_get_early_stopping_result" in hcalls and not reraises:
                            caught.extend(n for n in names if n)
                            handler_builds = True
            if fn.name == "_get_early_stopping_result":
                for node in ast.walk(fn):
                    if isinstance(node, ast.Call) and _name(node.func) == "isinstance" and len(node.args) == 2:
                        n = _name(node.args[1])
                        if n:
                            described.append(n)
                rets = [n for n in ast.walk(fn) if isinstance(n, ast.Return)]
                early_returns_result = bool(rets) and all(
                    isinstance(r.value, ast.Call) and _name(r.value.func) == "_get_result" for r in rets
                )
    return {
        "classes": classes,
        "raised": raised,
        "caught": sorted(set(caught)),
        "described": described,
        "handlerBuildsResult": handler_builds and early_returns_result,
        "sites": sites,
    }


def _lst(xs) -> str:
    return "[" + ", ".join(f'"{x}"' for x in xs) + "]"


def to_lean(t: dict) -> str:
    cls = ", ".join(f'("{c}", "{b}")' for c, b in t["classes"])
    return f"""/-
GENERATED by harness/translate_c03.py from gemseo/algos (stop_criteria.py, base_driver_library.py and every
`raise` site under algos/) — do not edit; regenerated at every `./check C03`.
Raise sites: {'; '.join(t['sites'])}
-/
import GemseoVerif.Model.C03

namespace GV.C03.Gen

/-- exception classes of `stop_criteria.py` with their base class -/
def classes : List (String × String) := [{cls}]
/-- classes raised under `algos/` to stop a run -/
def raised : List String := {_lst(t['raised'])}
/-- classes caught around `_pre_run`/`_run` in `BaseDriverLibrary.execute` by the handler that builds a result -/
def caught : List String := {_lst(t['caught'])}
/-- classes given a message by `_get_early_stopping_result` -/
def described : List String := {_lst(t['described'])}
/-- the handler calls `_get_early_stopping_result`, which returns `self._get_result(...)` on every path -/
def handlerBuildsResult : Bool := {'true' if t['handlerBuildsResult'] else 'false'}

end GV.C03.Gen
"""


def write() -> dict:
    t = extract()
    text = to_lean(t)
    GEN.parent.mkdir(exist_ok=True)
    if not GEN.exists() or GEN.read_text() != text:
        GEN.write_text(text)
    return t


def runtime_table() -> dict:
    """The same facts by introspection of the imported modules (cross-check of the translator)."""
    from gemseo.algos import stop_criteria as sc

    fam = {
        n: c
        for n, c in vars(sc).items()
        if isinstance(c, type) and issubclass(c, BaseException) and c.__module__ == sc.__name__
    }
    return {"classes": sorted((n, c.__bases__[0].__name__) for n, c in fam.items()), "family": fam}


if __name__ == "__main__":
    import json

    print(json.dumps(write(), indent=1))
