"""Translator of the C20 check: /repo sources --(ast)--> class table --> Lean (`Gen/C20Table.lean`).

For every class of `src/gemseo` deriving from `gemseo.core.serializable.Serializable` it extracts, without
importing anything:

* the MRO (C3 linearisation over the classes defined in `src/gemseo`; foreign bases are dropped);
* the *effective* `_ATTR_NOT_TO_SERIALIZE` (what `self._ATTR_NOT_TO_SERIALIZE` evaluates to: the first
  definition along the MRO, evaluated over the grammar `{"a", ...}`, `set()`,
  `X._ATTR_NOT_TO_SERIALIZE.union([...])`, `X._ATTR_NOT_TO_SERIALIZE | {...}`) and the union of the sets
  declared along the MRO;
* the attribute names assigned (flow-insensitively, following `self.m()`/`super().m()` calls, with
  private-name mangling) by the effective `_init_shared_memory_attrs_before`, `_init_shared_memory_attrs_after`,
  by a custom `__setstate__` around `super().__setstate__`, and by any method (the attribute universe);
* which attributes are assigned a `multiprocessing.Value(...)` and which a `Lock()`/`RLock()`.

It also extracts the classes with a custom `__getstate__`/`__setstate__` pair outside the `Serializable`
protocol (state keys dropped by `__getstate__`, attributes re-created by `__setstate__`).

The translator *refuses* what it does not understand (`refused` list): the item is then validated by the
differential check only, and the evidence says so.  Its output is cross-checked against run-time
introspection (`cross_check`) on every run.
"""

from __future__ import annotations

import ast
from pathlib import Path
from typing import Any

SERIALIZABLE = "gemseo.core.serializable:Serializable"
HOOK_BEFORE = "_init_shared_memory_attrs_before"
HOOK_AFTER = "_init_shared_memory_attrs_after"
STATE_ALL = "*state"  # `self.__dict__.update(state)`: every key of the state is restored


def mangle(cls_name: str, attr: str) -> str:
    """Private name mangling of `attr` inside the body of class `cls_name`."""
    if attr.startswith("__") and not attr.endswith("__"):
        return "_" + cls_name.lstrip("_") + attr
    return attr


class Index:
    """All class definitions of a source tree, with import resolution."""

    def __init__(self, src: Path, package: str = "gemseo") -> None:
        self.src = Path(src)
        self.package = package
        self.modules: dict[str, ast.Module] = {}
        self.classes: dict[str, ast.ClassDef] = {}  # "module:Class" -> node (top-level and nested one level)
        self.imports: dict[str, dict[str, tuple[str, str | None]]] = {}  # module -> alias -> (module, name|None)
        self.refused: list[str] = []
        root = self.src / package
        for path in sorted(root.rglob("*.py")):
            rel = path.relative_to(self.src).with_suffix("")
            parts = list(rel.parts)
            if parts[-1] == "__init__":
                parts = parts[:-1]
            mod = ".".join(parts)
            try:
                tree = ast.parse(path.read_text(encoding="utf-8"))
            except SyntaxError as e:  # pragma: no cover
                self.refused.append(f"{mod}: syntax error {e}")
                continue
            self.modules[mod] = tree
            is_pkg = path.name == "__init__.py"
            imps: dict[str, tuple[str, str | None]] = {}
            for node in ast.walk(tree):
                if isinstance(node, ast.ImportFrom):
                    base = node.module or ""
                    if node.level:
                        pkg_parts = mod.split(".") if is_pkg else mod.split(".")[:-1]
                        pkg_parts = pkg_parts[: len(pkg_parts) - (node.level - 1)]
                        base = ".".join([*pkg_parts, base] if base else pkg_parts)
                    for a in node.names:
                        imps[a.asname or a.name] = (base, a.name)
                elif isinstance(node, ast.Import):
                    for a in node.names:
                        imps[a.asname or a.name.split(".")[0]] = (a.name if a.asname else a.name.split(".")[0], None)
            self.imports[mod] = imps
            for node in tree.body:
                if isinstance(node, ast.ClassDef):
                    self.classes[f"{mod}:{node.name}"] = node
        self._bases: dict[str, list[str]] = {}
        self._mro: dict[str, list[str]] = {}

    # ------------------------------------------------------------------ name resolution
    def resolve(self, mod: str, name: str, depth: int = 0) -> str | None:
        """Qualified id of the class called `name` in module `mod` (following re-exports)."""
        if depth > 8:
            return None
        key = f"{mod}:{name}"
        if key in self.classes:
            return key
        imp = self.imports.get(mod, {}).get(name)
        if imp is None:
            return None
        m, n = imp
        if n is None:
            return None
        if m in self.modules:
            r = self.resolve(m, n, depth + 1)
            if r is not None:
                return r
        # `from package import module`
        return None

    def resolve_expr(self, mod: str, e: ast.expr) -> str | None:
        if isinstance(e, ast.Subscript):
            return self.resolve_expr(mod, e.value)
        if isinstance(e, ast.Name):
            return self.resolve(mod, e.id)
        if isinstance(e, ast.Attribute) and isinstance(e.value, ast.Name):
            imp = self.imports.get(mod, {}).get(e.value.id)
            if imp is not None:
                m, n = imp
                target = m if n is None else f"{m}.{n}"
                if target in self.modules:
                    return self.resolve(target, e.attr)
                if n is not None:
                    # attribute of a class (nested class) - not a base we follow
                    return None
        return None

    def bases(self, cid: str) -> list[str]:
        if cid not in self._bases:
            mod = cid.split(":")[0]
            out = []
            for b in self.classes[cid].bases:
                r = self.resolve_expr(mod, b)
                if r is not None and r != cid:
                    out.append(r)
            self._bases[cid] = out
        return self._bases[cid]

    def mro(self, cid: str) -> list[str]:
        if cid in self._mro:
            return self._mro[cid]
        seqs = [self.mro(b)[:] for b in self.bases(cid)] + [self.bases(cid)[:]]
        res = [cid]
        while True:
            seqs = [s for s in seqs if s]
            if not seqs:
                break
            for s in seqs:
                cand = s[0]
                if not any(cand in t[1:] for t in seqs):
                    break
            else:
                self.refused.append(f"{cid}: inconsistent MRO")
                break
            res.append(cand)
            for s in seqs:
                if s[0] == cand:
                    del s[0]
        self._mro[cid] = res
        return res

    # ------------------------------------------------------------------ class bodies
    def methods(self, cid: str) -> dict[str, ast.FunctionDef]:
        """Methods of the class body, keyed by their (mangled) attribute name."""
        cname = cid.split(":")[1]
        return {
            mangle(cname, n.name): n for n in self.classes[cid].body if isinstance(n, (ast.FunctionDef, ast.AsyncFunctionDef))
        }

    def own_excluded_expr(self, cid: str) -> ast.expr | None:
        for n in self.classes[cid].body:
            if isinstance(n, ast.Assign) and any(isinstance(t, ast.Name) and t.id == "_ATTR_NOT_TO_SERIALIZE" for t in n.targets):
                return n.value
            if isinstance(n, ast.AnnAssign) and isinstance(n.target, ast.Name) and n.target.id == "_ATTR_NOT_TO_SERIALIZE":
                return n.value
        return None

    def _str_items(self, e: ast.expr) -> list[str] | None:
        if isinstance(e, (ast.Set, ast.List, ast.Tuple)):
            out = []
            for x in e.elts:
                if isinstance(x, ast.Constant) and isinstance(x.value, str):
                    out.append(x.value)
                else:
                    return None
            return out
        if isinstance(e, ast.Call) and isinstance(e.func, ast.Name) and e.func.id in ("set", "frozenset", "list", "tuple"):
            if not e.args:
                return []
            if len(e.args) == 1:
                return self._str_items(e.args[0])
        return None

    def eval_excluded(self, cid: str, e: ast.expr, depth: int = 0) -> list[str] | None:
        """Evaluate the class-level expression of `_ATTR_NOT_TO_SERIALIZE` (None = refused)."""
        mod = cid.split(":")[0]
        lit = self._str_items(e)
        if lit is not None:
            return lit
        if isinstance(e, ast.Attribute) and e.attr == "_ATTR_NOT_TO_SERIALIZE":
            base = self.resolve_expr(mod, e.value)
            if base is None:
                return None
            return self.effective_excluded(base, depth + 1)
        if isinstance(e, ast.Call) and isinstance(e.func, ast.Attribute) and e.func.attr == "union":
            left = self.eval_excluded(cid, e.func.value, depth)
            if left is None:
                return None
            out = list(left)
            for a in e.args:
                r = self.eval_excluded(cid, a, depth)
                if r is None:
                    return None
                out += [x for x in r if x not in out]
            return out
        if isinstance(e, ast.BinOp) and isinstance(e.op, ast.BitOr):
            l, r = self.eval_excluded(cid, e.left, depth), self.eval_excluded(cid, e.right, depth)
            if l is None or r is None:
                return None
            return list(l) + [x for x in r if x not in l]
        return None

    def effective_excluded(self, cid: str, depth: int = 0) -> list[str] | None:
        if depth > 12:
            return None
        for k in self.mro(cid):
            e = self.own_excluded_expr(k)
            if e is not None:
                r = self.eval_excluded(k, e, depth)
                if r is None:
                    self.refused.append(f"{k}: _ATTR_NOT_TO_SERIALIZE expression not understood: {ast.unparse(e)[:80]}")
                return r
        return []

    def mro_excluded(self, cid: str) -> list[str]:
        out: list[str] = []
        for k in self.mro(cid):
            e = self.own_excluded_expr(k)
            if e is None:
                continue
            # only the literal part contributed by this class
            parts: list[str] = []
            for node in ast.walk(e):
                lit = self._str_items(node) if isinstance(node, (ast.Set, ast.List, ast.Tuple)) else None
                if lit:
                    parts += lit
            out += [p for p in parts if p not in out]
        return out

    # ------------------------------------------------------------------ assignments of a method
    def find_method(self, cid: str, name: str, after: str | None = None) -> tuple[str, ast.FunctionDef] | None:
        """First definition of `name` along the MRO of `cid` (after class `after`, for `super()`)."""
        mro = self.mro(cid)
        if after is not None and after in mro:
            mro = mro[mro.index(after) + 1 :]
        for k in mro:
            m = self.methods(k).get(name)
            if m is not None:
                return k, m
        return None

    def assigned(self, cid: str, method: str, after: str | None = None, _seen: set | None = None, _depth: int = 0) -> dict[str, str]:
        """{attribute: kind} assigned on `self` when `method` is called on an instance of `cid`.

        kind: "sync" (`Value(...)`), "lock" (`Lock()`/`RLock()`), "other".
        The pseudo attribute `*state` means `self.__dict__.update(state)`; `*base` means the call reaches
        `Serializable.__setstate__`.
        """
        seen = _seen if _seen is not None else set()
        out: dict[str, str] = {}
        found = self.find_method(cid, method, after)
        if found is None or _depth > 8:
            return out
        owner, fn = found
        if (owner, method) in seen:
            return out
        seen.add((owner, method))
        if owner == SERIALIZABLE and method == "__setstate__":
            out["*base"] = "other"
            return out
        owner_name = owner.split(":")[1]
        self_name = fn.args.args[0].arg if fn.args.args else "self"

        def kind_of(value: ast.expr | None) -> str:
            if isinstance(value, ast.Call):
                f = value.func
                # cast("...", Value("i", 0))
                if isinstance(f, ast.Name) and f.id == "cast" and len(value.args) == 2:
                    return kind_of(value.args[1])
                n = f.id if isinstance(f, ast.Name) else f.attr if isinstance(f, ast.Attribute) else ""
                if n == "Value":
                    return "sync"
                if n in ("Lock", "RLock"):
                    return "lock"
            if isinstance(value, ast.IfExp):
                a, b = kind_of(value.body), kind_of(value.orelse)
                return a if a != "other" else b
            return "other"

        def add(name: str, kind: str) -> None:
            if out.get(name, "other") == "other":
                out[name] = kind

        def target(t: ast.expr, kind: str) -> None:
            if isinstance(t, (ast.Tuple, ast.List)):
                for x in t.elts:
                    target(x, "other")
            elif isinstance(t, ast.Starred):
                target(t.value, "other")
            elif isinstance(t, ast.Attribute) and isinstance(t.value, ast.Name) and t.value.id == self_name:
                add(mangle(owner_name, t.attr), kind)
            elif (
                isinstance(t, ast.Subscript)
                and isinstance(t.value, ast.Attribute)
                and t.value.attr == "__dict__"
                and isinstance(t.value.value, ast.Name)
                and t.value.value.id == self_name
                and isinstance(t.slice, ast.Constant)
                and isinstance(t.slice.value, str)
            ):
                add(t.slice.value, kind)

        for node in ast.walk(fn):
            if isinstance(node, ast.Assign):
                for t in node.targets:
                    target(t, kind_of(node.value))
            elif isinstance(node, ast.AnnAssign) and node.value is not None:
                target(node.target, kind_of(node.value))
            elif isinstance(node, ast.AugAssign):
                target(node.target, "other")
            elif isinstance(node, (ast.For, ast.AsyncFor)):
                target(node.target, "other")
            elif isinstance(node, (ast.With, ast.AsyncWith)):
                for item in node.items:
                    if item.optional_vars is not None:
                        target(item.optional_vars, "other")
            elif isinstance(node, ast.NamedExpr):
                target(node.target, "other")
            elif isinstance(node, ast.Call):
                f = node.func
                # setattr(self, "name", v)
                if isinstance(f, ast.Name) and f.id == "setattr" and len(node.args) >= 2:
                    a0, a1 = node.args[0], node.args[1]
                    if isinstance(a0, ast.Name) and a0.id == self_name and isinstance(a1, ast.Constant) and isinstance(a1.value, str):
                        add(a1.value, "other")
                if not isinstance(f, ast.Attribute):
                    continue
                # self.__dict__.update(state)
                if (
                    f.attr == "update"
                    and isinstance(f.value, ast.Attribute)
                    and f.value.attr == "__dict__"
                    and isinstance(f.value.value, ast.Name)
                    and f.value.value.id == self_name
                ):
                    add(STATE_ALL, "other")
                    continue
                recv = f.value
                # self.m(...)
                if isinstance(recv, ast.Name) and recv.id == self_name:
                    sub = self.assigned(cid, mangle(owner_name, f.attr), None, seen, _depth + 1)
                # super().m(...)
                elif isinstance(recv, ast.Call) and isinstance(recv.func, ast.Name) and recv.func.id == "super":
                    sub = self.assigned(cid, f.attr, owner, seen, _depth + 1)
                # self.__class__.__init__(self, ...) / Klass.__init__(self, ...)
                elif (
                    node.args
                    and isinstance(node.args[0], ast.Name)
                    and node.args[0].id == self_name
                    and (
                        (isinstance(recv, ast.Attribute) and recv.attr == "__class__")
                        or (isinstance(recv, ast.Name) and self.resolve(owner.split(":")[0], recv.id) in self.mro(cid))
                    )
                ):
                    if isinstance(recv, ast.Name):
                        k = self.resolve(owner.split(":")[0], recv.id)
                        m = self.methods(k).get(f.attr) if k else None
                        sub = {}
                        if m is not None:
                            mro = self.mro(cid)
                            prev = mro[mro.index(k) - 1] if mro.index(k) > 0 else None
                            sub = self.assigned(cid, f.attr, prev, seen, _depth + 1) if prev else self.assigned(cid, f.attr, None, seen, _depth + 1)
                    else:
                        sub = self.assigned(cid, f.attr, None, seen, _depth + 1)
                else:
                    continue
                for k, v in sub.items():
                    add(k, v)
        return out

    def all_attrs(self, cid: str) -> dict[str, str]:
        """Every attribute assigned by some method along the MRO, with its kind."""
        out: dict[str, str] = {}
        for k in self.mro(cid):
            for name in self.methods(k):
                for a, kind in self.assigned_in(k, name).items():
                    if out.get(a, "other") == "other":
                        out[a] = kind
        return out

    _cache_assigned_in: dict[tuple[str, str], dict[str, str]] = {}

    def assigned_in(self, owner: str, method: str) -> dict[str, str]:
        """Direct assignments in the body of `owner.method` only (no call following)."""
        key = (owner, method)
        if key not in self._cache_assigned_in:
            self._cache_assigned_in[key] = self._direct(owner, method)
        return self._cache_assigned_in[key]

    def _direct(self, owner: str, method: str) -> dict[str, str]:
        fn = self.methods(owner).get(method)
        if fn is None:
            return {}
        out: dict[str, str] = {}
        owner_name = owner.split(":")[1]
        self_name = fn.args.args[0].arg if fn.args.args else "self"
        for node in ast.walk(fn):
            targets: list[tuple[ast.expr, ast.expr | None]] = []
            if isinstance(node, ast.Assign):
                targets = [(t, node.value) for t in node.targets]
            elif isinstance(node, ast.AnnAssign) and node.value is not None:
                targets = [(node.target, node.value)]
            elif isinstance(node, ast.AugAssign):
                targets = [(node.target, None)]
            for t, v in targets:
                stack = [t]
                while stack:
                    x = stack.pop()
                    if isinstance(x, (ast.Tuple, ast.List)):
                        stack += list(x.elts)
                    elif isinstance(x, ast.Attribute) and isinstance(x.value, ast.Name) and x.value.id == self_name:
                        kind = "other"
                        if isinstance(v, ast.Call):
                            f = v.func
                            if isinstance(f, ast.Name) and f.id == "cast" and len(v.args) == 2 and isinstance(v.args[1], ast.Call):
                                f = v.args[1].func
                            n = f.id if isinstance(f, ast.Name) else f.attr if isinstance(f, ast.Attribute) else ""
                            kind = "sync" if n == "Value" else "lock" if n in ("Lock", "RLock") else "other"
                        name = mangle(owner_name, x.attr)
                        if out.get(name, "other") == "other":
                            out[name] = kind
        return out

    # ------------------------------------------------------------------ custom state protocols
    def dropped_by_getstate(self, cid: str) -> tuple[list[str], bool]:
        """Keys removed from `state` by the class' own `__getstate__`; (names, understood?)."""
        fn = self.methods(cid).get("__getstate__")
        if fn is None:
            return [], True
        cname = cid.split(":")[1]
        out: list[str] = []
        understood = True

        def key_of(e: ast.expr) -> str | None:
            if isinstance(e, ast.Constant) and isinstance(e.value, str):
                return e.value
            if isinstance(e, ast.JoinedStr):
                s = ""
                for v in e.values:
                    if isinstance(v, ast.Constant):
                        s += str(v.value)
                    elif isinstance(v, ast.FormattedValue) and ast.unparse(v.value) == "self.__class__.__name__":
                        s += cname
                    else:
                        return None
                return s
            return None

        for node in ast.walk(fn):
            if isinstance(node, ast.Delete):
                for t in node.targets:
                    if isinstance(t, ast.Subscript) and isinstance(t.value, ast.Name) and t.value.id == "state":
                        k = key_of(t.slice)
                        if k is None:
                            understood = False
                        else:
                            out.append(k)
            elif isinstance(node, ast.Call) and isinstance(node.func, ast.Attribute) and node.func.attr == "pop":
                if isinstance(node.func.value, ast.Name) and node.func.value.id == "state" and node.args:
                    k = key_of(node.args[0])
                    if k is None:
                        understood = False
                    else:
                        out.append(k)
        return out, understood


# --------------------------------------------------------------------------- table


def extract(src: Path) -> dict[str, Any]:
    """The class table of the tree rooted at `src` (the directory containing the `gemseo` package)."""
    ix = Index(src)
    Index._cache_assigned_in = {}
    rows: list[dict[str, Any]] = []
    customs: list[dict[str, Any]] = []
    for cid in sorted(ix.classes):
        mro = ix.mro(cid)
        if SERIALIZABLE in mro and cid != SERIALIZABLE:
            eff = ix.effective_excluded(cid)
            refused = eff is None
            attrs = ix.all_attrs(cid)
            before = ix.assigned(cid, HOOK_BEFORE)
            after = ix.assigned(cid, HOOK_AFTER)
            setstate = ix.assigned(cid, "__setstate__")
            base = "*base" in setstate
            gs = ix.find_method(cid, "__getstate__")
            base_get = gs is not None and gs[0] == SERIALIZABLE
            post = {k: v for k, v in setstate.items() if not k.startswith("*")}
            sync = sorted(a for a, k in attrs.items() if k == "sync")
            locks = sorted(a for a, k in attrs.items() if k == "lock")
            rows.append({
                "id": cid,
                "name": cid.replace(":", "."),
                "cls": cid.split(":")[1],
                "mro": [k.replace(":", ".") for k in mro],
                "refused": refused,
                "base_protocol": bool(base and base_get and not refused),
                "excluded": sorted(eff or []),
                "excluded_mro": sorted(ix.mro_excluded(cid)),
                "before": sorted(before),
                "after": sorted(after),
                "post": sorted(post),
                "attrs": sorted(attrs),
                "sync": sync,
                "locks": locks,
            })
        elif SERIALIZABLE not in mro:
            ms = ix.methods(cid)
            if "__getstate__" in ms and "__setstate__" in ms:
                dropped, ok = ix.dropped_by_getstate(cid)
                rec = ix.assigned(cid, "__setstate__")
                customs.append({
                    "id": cid,
                    "name": cid.replace(":", "."),
                    "cls": cid.split(":")[1],
                    "dropped": sorted(dropped),
                    "understood": ok,
                    "restores_state": STATE_ALL in rec,
                    "recreated": sorted(k for k in rec if not k.startswith("*")),
                })
    return {"rows": rows, "customs": customs, "refused": sorted(set(ix.refused))}


def row_problems(row: dict[str, Any]) -> list[tuple[str, str]]:
    """The obligations of `Row.ok` evaluated in Python: [(obligation, attribute)] that fail."""
    out = []
    if not row["base_protocol"]:
        out.append(("base-protocol", ""))
    rec = set(row["before"]) | set(row["after"]) | set(row["post"])
    for a in row["excluded"]:
        if a in row["attrs"] and a not in rec:
            out.append(("excluded-not-recreated", a))
    for a in row["sync"]:
        if a not in set(row["before"]) | set(row["after"]):
            out.append(("sync-not-recreated", a))
    for a in row["locks"]:
        if a not in row["excluded"]:
            out.append(("lock-not-excluded", a))
    for a in row["excluded_mro"]:
        if a not in row["excluded"]:
            out.append(("exclusion-not-inherited", a))
    return out


def dead_exclusions(row: dict[str, Any]) -> list[str]:
    """Excluded names that are never an attribute of the class (e.g. un-mangled private names)."""
    return [a for a in row["excluded"] if a not in row["attrs"]]


def custom_problems(row: dict[str, Any]) -> list[tuple[str, str]]:
    out = []
    if not row["understood"]:
        out.append(("getstate-not-understood", ""))
    for a in row["dropped"]:
        if a not in row["recreated"]:
            out.append(("dropped-not-recreated", a))
    return out


# --------------------------------------------------------------------------- Lean emission


def _lstr(s: str) -> str:
    return '"' + s.replace("\\", "\\\\").replace('"', '\\"') + '"'


def _llist(xs: list[str]) -> str:
    return "[" + ", ".join(_lstr(x) for x in xs) + "]"


def to_lean(table: dict[str, Any]) -> str:
    lines = [
        "/-",
        "GENERATED by harness/translate_c20.py from /repo/src/gemseo on every run of `./check C20`.",
        "Do not edit: one `Row` per class deriving from `gemseo.core.serializable.Serializable`,",
        "one `CustomRow` per class with its own `__getstate__`/`__setstate__` pair.",
        "-/",
        "import GemseoVerif.Model.C20",
        "",
        "namespace GV.C20.Gen",
        "open GV.C20",
        "",
        "def table : List Row := [",
    ]
    rows = []
    for r in table["rows"]:
        rows.append(
            "  { name := %s, baseProtocol := %s,\n    excluded := %s, excludedMro := %s,\n    before := %s, after := %s, post := %s,\n    attrs := %s,\n    sync := %s, locks := %s }"
            % (
                _lstr(r["name"]),
                "true" if r["base_protocol"] else "false",
                _llist(r["excluded"]),
                _llist(r["excluded_mro"]),
                _llist(r["before"]),
                _llist(r["after"]),
                _llist(r["post"]),
                _llist(r["attrs"]),
                _llist(r["sync"]),
                _llist(r["locks"]),
            )
        )
    lines.append(",\n".join(rows))
    lines.append("]")
    lines.append("")
    lines.append("def customTable : List CustomRow := [")
    crows = []
    for r in table["customs"]:
        crows.append(
            "  { name := %s, dropped := %s, recreated := %s }" % (_lstr(r["name"]), _llist(r["dropped"]), _llist(r["recreated"]))
        )
    lines.append(",\n".join(crows))
    lines.append("]")
    lines.append("")
    lines.append("end GV.C20.Gen")
    return "\n".join(lines) + "\n"


# --------------------------------------------------------------------------- run-time cross-check


def cross_check(table: dict[str, Any]) -> list[str]:
    """Compare the extracted table with run-time introspection of the imported classes."""
    import importlib

    problems = []
    for r in table["rows"]:
        mod, cls = r["id"].split(":")
        try:
            klass = getattr(importlib.import_module(mod), cls)
        except Exception as e:  # noqa: BLE001
            problems.append(f"{r['name']}: cannot import ({type(e).__name__})")
            continue
        rt = sorted(klass._ATTR_NOT_TO_SERIALIZE)
        if rt != r["excluded"]:
            problems.append(f"{r['name']}: _ATTR_NOT_TO_SERIALIZE extracted {r['excluded']} != run-time {rt}")
        rt_mro = [f"{k.__module__}.{k.__qualname__}" for k in klass.__mro__ if k.__module__.startswith("gemseo")]
        if rt_mro != r["mro"]:
            problems.append(f"{r['name']}: MRO extracted {r['mro']} != run-time {rt_mro}")
    return problems


if __name__ == "__main__":  # pragma: no cover
    import json
    import sys

    t = extract(Path(sys.argv[1] if len(sys.argv) > 1 else "/repo/src"))
    for r in t["rows"]:
        pb = row_problems(r)
        dead = dead_exclusions(r)
        if pb or dead or r["excluded"] or r["before"] or r["after"] or r["post"]:
            print(r["name"], json.dumps({k: r[k] for k in ("excluded", "before", "after", "post", "sync", "locks")}), "PROBLEMS", pb, "DEAD", dead)
    for r in t["customs"]:
        print("custom", r["name"], r["dropped"], r["recreated"], r["restores_state"], custom_problems(r))
    print("refused", t["refused"])
    print(len(t["rows"]), "rows")
    print(cross_check(t)[:10])
