"""Size-agnostic leaf disciplines of the C09 check: the definition of the function family.

A *flex* leaf is described by the same JSON specification as a `PolyDisc` (`harness/c09_disc.py`), read
as a TEMPLATE written at the base sizes `spec["ins"]`/`spec["outs"]`; the function it computes is defined
for input vectors of ANY lengths (grammars do not fix sizes, the sizes are part of the data):

* length of the output `o`:  max(1, base_o + len(ref) - base_ref), `ref` = the first input of the leaf;
* component `j` of `o` = template component `j mod base_o` in which every index `i` of an input `n` is
  replaced by `(i + j div base_o) mod len(n)` (cyclic extension of the template).

At the base lengths this is the `PolyDisc` of the same specification.  `expand_spec` writes the function at
given input lengths as an ordinary fixed-size specification; both the harness discipline (`FlexDisc`, float
evaluation) and the oracle (dual numbers over Fraction) evaluate that expansion.  Pure Python, no GEMSEO.
"""

from __future__ import annotations

from typing import Any


def out_len(spec: dict[str, Any], o_base: int, lens: dict[str, int]) -> int:
    ref, ref_base = spec["ins"][0]
    return max(1, int(o_base) + int(lens[ref]) - int(ref_base))


def expand_spec(spec: dict[str, Any], lens: dict[str, int]) -> dict[str, Any]:
    """The flex leaf `spec` at the input lengths `lens` as a fixed-size specification."""
    ins = [[n, int(lens[n])] for n, _ in spec["ins"]]
    outs = []
    poly = {}
    for o, base in spec["outs"]:
        base = int(base)
        size = out_len(spec, base, lens)
        outs.append([o, size])
        comps = []
        for j in range(size):
            tpl = spec["poly"][o][j % base]
            shift = j // base
            comps.append({
                "c": tpl["c"],
                "lin": [[n, (int(i) + shift) % int(lens[n]), a] for n, i, a in tpl.get("lin", [])],
                "quad": [
                    [n1, (int(i1) + shift) % int(lens[n1]), n2, (int(i2) + shift) % int(lens[n2]), b]
                    for n1, i1, n2, i2, b in tpl.get("quad", [])
                ],
            })
        poly[o] = comps
    new = {k: v for k, v in spec.items() if k not in ("ins", "outs", "poly", "flex")}
    new.update({"ins": ins, "outs": outs, "poly": poly})
    return new
