"""Differential oracle of the C20 check: original vs restored object, on the real code.

A *case* is a JSON-able dict; `run_case(case, tmp)` returns an `Outcome` (status + list of failures).
The oracle is written from the property text:

  (a) the object can be serialized and restored at this moment of its life;
  (b) the restored object exposes the same grammars (names, required names, defaults, types, validation
      verdicts), settings, status, local data, cache content and statistics *as values*;
  (c) serializing does not alter the original;
  (d) no mutable object is reachable from both (file handler of a file-based cache excepted), and using the
      copy leaves the original untouched;
  (e) for the same inputs both return exactly the same outputs and Jacobians (bytewise) or raise the same
      exception class; after the same usage their public views are equal again.

Nothing here looks at `_ATTR_NOT_TO_SERIALIZE` or at the Lean model.
"""

from __future__ import annotations

import copy as _copy
import pickle
from dataclasses import dataclass
from dataclasses import field
from pathlib import Path
from typing import Any

import numpy as np

from harness import c20_catalog as CAT
from harness import c20_disc as H
from harness import c20_observe as OBS
from harness import common


@dataclass
class Outcome:
    status: str = "ok"  # ok | noinst | skipped
    detail: str = ""
    failures: list[tuple[str, str]] = field(default_factory=list)  # (failure kind, what)
    info: dict[str, Any] = field(default_factory=dict)

    def fail(self, kind: str, what: str) -> None:
        if not any(k == kind for k, _ in self.failures):
            self.failures.append((kind, what[:700]))


# --------------------------------------------------------------------------- inputs


def gen_inputs(disc, rng: common.Rng) -> dict[str, Any]:
    """Input data inside the input grammar: the defaults, numeric arrays scaled by dyadic factors near 1."""
    data = {}
    for name, value in disc.io.input_grammar.defaults.items():
        if isinstance(value, np.ndarray) and value.dtype.kind == "f" and value.size:
            factors = np.array([1.0 + rng.randint(-4, 4) / 64.0 for _ in range(value.size)]).reshape(value.shape)
            shift = rng.randint(-2, 2) / 128.0
            data[name] = value * factors + shift * (value == 0.0)
        elif isinstance(value, float):
            data[name] = value * (1.0 + rng.randint(-4, 4) / 64.0)
    # a discipline configured for complex data (e.g. the Sobieski disciplines with dtype="complex128"): half of the
    # inputs are complex points with dyadic imaginary parts, half are real points of complex dtype (the only ones at
    # which the complex-step approximation accepts to differentiate)
    cnames = [n for n, v in disc.io.input_grammar.defaults.items() if isinstance(v, np.ndarray) and v.dtype.kind == "c" and v.size]
    if cnames:
        real_point = rng.chance(0.5)
        for name in cnames:
            value = disc.io.input_grammar.defaults[name]
            factors = np.array([1.0 + rng.randint(-4, 4) / 64.0 for _ in range(value.size)]).reshape(value.shape)
            imag = np.array([0.0 if real_point else rng.randint(-8, 8) / 1024.0 for _ in range(value.size)]).reshape(value.shape)
            data[name] = (value * factors + 1j * imag).astype(value.dtype)
    return data


def is_complex_configured(disc) -> bool:
    return any(isinstance(v, np.ndarray) and v.dtype.kind == "c" for v in disc.io.input_grammar.defaults.values())


def _fresh(data):
    """A private copy of input data (a discipline may modify the arrays it is given in place: the original and
    the copy must each receive the input as generated)."""
    return {k: (v.copy() if isinstance(v, np.ndarray) else _copy.deepcopy(v)) for k, v in data.items()}


def _call(f, *a, **k):
    try:
        return ("ok", f(*a, **k))
    except Exception as e:  # noqa: BLE001
        return ("exc", type(e).__name__ + ": " + str(e)[:160])


def _exec_view(disc, data):
    st, r = _call(disc.execute, _fresh(data))
    if st == "exc":
        return ("exc", r.split(":")[0]), r
    return ("out", OBS.canon(dict(r))), ""


def _lin_view(disc, data):
    st, r = _call(disc.linearize, _fresh(data), compute_all_jacobians=True)
    if st == "exc":
        return ("exc", r.split(":")[0]), r
    return ("jac", OBS.canon({k: dict(v) for k, v in r.items()})), ""


def _strip_runtime(view: dict[str, Any]) -> dict[str, Any]:
    """Remove what legitimately differs after separate usage: wall-clock durations."""
    v = dict(view)
    v["stats"] = {k: x for k, x in v["stats"].items() if k != "duration"}
    if "sub_stats" in v:
        v.pop("sub_stats")
    return v


def _strip_file(view: dict[str, Any]) -> dict[str, Any]:
    """Remove the file path of a file-based cache (a twin uses its own file)."""
    v = dict(view)
    if isinstance(v.get("cache"), dict):
        v["cache"] = {k: x for k, x in v["cache"].items() if k != "file"}
    return v


# --------------------------------------------------------------------------- life edits (settings changed after creation)

EDIT_KINDS = ("cache-tol", "cache-name", "in-optional", "in-required", "in-default", "out-optional", "use",
              "jac-approx", "fd-opt-step", "lin-mode")

# Settings that live in a helper object created *after* the construction (the Jacobian approximator made by
# `set_jacobian_approximation`, the per-input steps computed by `set_optimal_fd_step`, its parallel options)
# and the linearization mode: the restored discipline must linearize with them.
APPROX_MODES = ("finite_differences", "centered_differences", "complex_step")
MAX_INPUT_SIZE_FOR_OPTIMAL_STEP = 16


def _input_size(disc) -> int:
    n = 0
    for v in disc.io.input_grammar.defaults.values():
        n += int(np.size(v))
    return n


def _is_approx(disc) -> bool:
    return str(getattr(disc, "linearization_mode", "")) in APPROX_MODES


def _float_default_names(disc) -> list[str]:
    out = []
    for n, v in disc.io.input_grammar.defaults.items():
        if isinstance(v, np.ndarray) and v.dtype.kind in "fc" and v.size:
            out.append(n)
    return sorted(out)


def apply_edits(disc, edits, pre_inputs) -> list[tuple[str, str, Any]]:
    """Change settings of a living discipline through its public API (the property: "pickled at any moment of
    their life").  Deterministic in (discipline, edits): the twin of a file-cache case gets the same edits.
    Returns what took effect: (kind, name, value set) - the independent expectation for the restored object."""
    from fractions import Fraction as Fr

    done: list[tuple[str, str, Any]] = []
    gin, gout = disc.io.input_grammar, disc.io.output_grammar
    for e in edits or ():
        kind, arg = e[0], (e[1] if len(e) > 1 else 0)
        try:
            if kind == "cache-tol" and disc.cache is not None:
                disc.cache.tolerance = float(Fr(str(arg)))
                done.append((kind, "", float(Fr(str(arg)))))
            elif kind == "cache-name" and disc.cache is not None:
                disc.cache.name = str(arg)
                done.append((kind, "", str(arg)))
            elif kind == "in-optional":
                names = sorted(n for n in gin.required_names if n in gin.defaults)
                if names:
                    n = names[int(arg) % len(names)]
                    gin.required_names.remove(n)
                    done.append((kind, n, False))
            elif kind == "in-required":
                names = sorted(n for n in gin.names if n not in gin.required_names)
                if names:
                    n = names[int(arg) % len(names)]
                    gin.required_names.add(n)
                    done.append((kind, n, True))
            elif kind == "in-default":
                names = _float_default_names(disc)
                if names:
                    n = names[int(arg) % len(names)]
                    new = np.array(gin.defaults[n], dtype=gin.defaults[n].dtype) * 1.25 + 0.5
                    gin.defaults[n] = new
                    done.append((kind, n, new.copy()))
            elif kind == "out-optional":
                names = sorted(gout.required_names)
                if names:
                    n = names[int(arg) % len(names)]
                    gout.required_names.discard(n)
                    done.append((kind, n, False))
            elif kind == "use":
                x = _fresh(pre_inputs[int(arg) % len(pre_inputs)]) if pre_inputs else {}
                st, _ = _call(disc.execute, x)
                done.append((kind, st, None))
            elif kind == "jac-approx":
                # [kind, mode index, step, parallel?]: `set_jacobian_approximation` (it also sets the mode)
                mode = APPROX_MODES[int(arg) % len(APPROX_MODES)]
                step = float(Fr(str(e[2]))) if len(e) > 2 else 2.0**-20
                kw = {}
                if len(e) > 3 and e[3]:
                    kw = {"jac_approx_n_processes": 2, "jac_approx_use_threading": False, "jac_approx_wait_time": 0.0}
                disc.set_jacobian_approximation(disc.ApproximationMode(mode), jax_approx_step=step, **kw)
                done.append((kind, mode + ("+2-processes" if kw else ""), step))
            elif kind == "fd-opt-step":
                # [kind, mode index or -1 (keep the approximator), step]: the optimal steps are computed by the
                # approximator and kept by it (`set_optimal_fd_step` executes the discipline twice per input)
                if _input_size(disc) > MAX_INPUT_SIZE_FOR_OPTIMAL_STEP:
                    done.append(("refused:" + kind, "too-many-inputs", None))
                    continue
                if int(arg) >= 0:
                    mode = APPROX_MODES[int(arg) % 2]
                    step = float(Fr(str(e[2]))) if len(e) > 2 else 2.0**-7
                    disc.set_jacobian_approximation(disc.ApproximationMode(mode), jax_approx_step=step)
                    done.append(("jac-approx", mode, step))
                disc.set_optimal_fd_step(compute_all_jacobians=True)
                done.append((kind, "", None))
            elif kind == "lin-mode":
                modes = sorted(str(m) for m in disc.LinearizationMode)
                m = arg if isinstance(arg, str) and arg in modes else modes[int(arg) % len(modes)]
                disc.linearization_mode = disc.LinearizationMode(m)
                done.append((kind, "", m))
        except Exception as ex:  # noqa: BLE001  (an edit the class refuses is not part of the case)
            done.append(("refused:" + kind, type(ex).__name__, None))
    return done


def check_edits_carried(out: Outcome, copy, done) -> None:
    """Positive, independent of the original's getters: the restored object shows the values that were *set*."""
    gin, gout = copy.io.input_grammar, copy.io.output_grammar
    last: dict[tuple[str, str], Any] = {}
    for kind, n, v in done:
        if kind in ("in-optional", "in-required"):
            last[("in-req", n)] = v
        elif kind in ("cache-tol", "cache-name", "in-default", "out-optional"):
            last[(kind, n)] = v
        elif kind == "jac-approx":
            last[("lin-mode", "")] = n.split("+")[0]
        elif kind == "lin-mode":
            last[("lin-mode", "")] = v
    for (kind, n), v in last.items():
        ok, got = True, None
        if kind == "cache-tol":
            got = getattr(copy.cache, "tolerance", None)
            ok = isinstance(got, float) and got == v
        elif kind == "cache-name":
            got = getattr(copy.cache, "name", None)
            ok = got == v
        elif kind == "in-req":
            got = n in gin.required_names
            ok = (n in gin.names) and got is v
        elif kind == "out-optional":
            got = n in gout.required_names
            ok = (n in gout.names) and got is False
        elif kind == "in-default":
            got = gin.defaults.get(n)
            ok = isinstance(got, np.ndarray) and got.shape == v.shape and bool((got == v).all())
        elif kind == "lin-mode":
            got = str(getattr(copy, "linearization_mode", None))
            ok = got == v
        if not ok:
            out.fail("setting-not-carried", f"{kind} {n!r} was set to {v!r} before pickling, the restored object has {got!r}")


def check_approximation_step(out: Outcome, copy, done, x) -> None:
    """Exact stream (AffineDisc only: integer coefficients, dyadic inputs and step): the Jacobian the restored
    discipline approximates is the difference quotient *with the step that was set before pickling*, computed
    here with fractions from the definition of the discipline - independent of the original and of GEMSEO."""
    from fractions import Fraction as Fr

    if type(copy).__name__ != "AffineDisc" or not done:
        return
    last = None
    for kind, n, v in done:
        if kind == "jac-approx":
            last = (n.split("+")[0], v)
        elif kind in ("fd-opt-step", "lin-mode"):
            last = None  # (optimal steps are computed by the code; the mode alone says nothing about the step)
    if last is None or last[0] not in ("finite_differences", "centered_differences"):
        return
    mode, h = last[0], Fr(last[1])
    # at an input no cache has seen (3 away from the generated one, far beyond every cache tolerance): at an input
    # linearized *before* the approximation was set, a cache that keeps every entry (HDF5Cache) answers with the
    # Jacobian stored then - for the original as for the copy - and the difference quotient is never computed
    x = {k: np.asarray(x.get(k, copy.io.input_grammar.defaults[k]), dtype=float) + 3.0 for k in copy.in_sizes}
    st, jac = _call(copy.linearize, _fresh(x), compute_all_jacobians=True)
    if st == "exc":
        out.fail("setting-not-carried", f"the restored discipline cannot linearize with {mode} (step {h}): {jac}")
        return
    xs = np.concatenate([np.asarray(x.get(k, copy.io.input_grammar.defaults[k]), dtype=float).ravel() for k in copy.in_sizes])
    for o in copy.out_sizes:
        col = 0
        for i, size in copy.in_sizes.items():
            got = np.asarray(jac[o][i])
            for r in range(copy.out_sizes[o]):
                for c in range(size):
                    xj = common.F(float(xs[col + c]))
                    q = common.F(float(copy.q[o][r]))
                    want = common.F(float(copy.A[o][r, col + c])) + q * (2 * xj + (h if mode == "finite_differences" else 0))
                    g = common.F(float(got[r, c])) if np.isfinite(got[r, c]) else None
                    if not (g is not None and g == want):
                        out.fail("setting-not-carried", f"{mode} with step {h} was set before pickling: d{o}[{r}]/d{i}[{c}] at {xs.tolist()} must be {want} (difference quotient with that step), the restored discipline returns {got[r, c]!r}")
                        return
            col += size


def near_inputs(disc, done, seen_inputs) -> list[dict[str, Any]]:
    """Inputs within the cache tolerance of inputs already executed (a tolerance-based cache hit) and inputs
    that omit a name made optional (the default is used)."""
    xs = []
    tol = next((v for k, _, v in reversed(done) if k == "cache-tol"), None)
    if tol:
        for x in seen_inputs[-2:]:
            names = sorted(n for n, v in x.items() if isinstance(v, np.ndarray) and v.dtype.kind in "fc" and v.size)
            if names:
                y = {k: (v.copy() if isinstance(v, np.ndarray) else v) for k, v in x.items()}
                y[names[0]].flat[0] += tol / 4.0
                xs.append(y)
    for k, n, _ in done:
        if k == "in-optional" and seen_inputs:
            y = {a: b for a, b in seen_inputs[-1].items() if a != n}
            xs.append(y)
    return xs


# --------------------------------------------------------------------------- discipline cases


def set_cache(disc, cache: str, tmp: Path, tag: str) -> None:
    if cache == "none":
        disc.set_cache(disc.CacheType.NONE)
    elif cache == "HDF5Cache":
        disc.set_cache(disc.CacheType.HDF5, hdf_file_path=str(Path(tmp) / f"{tag}.h5"), hdf_node_path="node")
    elif cache == "MemoryFullCache[unshared]":
        disc.set_cache(disc.CacheType.MEMORY_FULL, is_memory_shared=False)
    else:
        disc.set_cache(disc.CacheType(cache))


_COUNTER = [0]


def build_discipline(case: dict[str, Any], tmp: Path):
    recipes, _ = CAT.discipline_recipes()
    _, builder = recipes[case["recipe"]]
    with CAT.default_grammar(case.get("grammar", "JSONGrammar")):
        disc = builder(tmp)
    _COUNTER[0] += 1
    set_cache(disc, case.get("cache", "SimpleCache"), tmp, f"c{_COUNTER[0]}")
    return disc


def live_discipline(case: dict[str, Any], tmp: Path, rng: common.Rng, out: Outcome):
    """Build the discipline of the case and give it its life before serialization (moment, observer, edits).
    Returns (discipline, pre_inputs, done, seen_inputs) or None (`out.status` says why)."""
    from gemseo.core.execution_statistics import ExecutionStatistics

    ExecutionStatistics.is_enabled = True
    try:
        disc = build_discipline(case, tmp)
    except Exception as e:  # noqa: BLE001
        out.status = "noinst"
        out.detail = f"{type(e).__name__}: {str(e)[:120]}"
        return None
    out.info["class"] = type(disc).__name__
    out.info["grammar_class"] = type(disc.io.input_grammar).__name__

    # ---- life before serialization
    moment = case.get("moment", "fresh")
    n_pre = int(case.get("n_pre", 2))
    pre_inputs = [gen_inputs(disc, rng) for _ in range(n_pre)]
    if moment in ("executed", "linearized"):
        for x in pre_inputs:
            st, r = _call(disc.execute, _fresh(x))
            if st == "exc":
                out.status = "skipped"
                out.detail = "original cannot execute on the generated input: " + r
                return None
    if moment == "linearized":
        st, r = _call(disc.linearize, _fresh(pre_inputs[-1]), compute_all_jacobians=True)
        if st == "exc":
            out.status = "skipped"
            out.detail = "original cannot linearize: " + r
            return None
    if case.get("observer"):
        obs = H.ResourceObserver() if case["observer"] == "resource" else H.PlainObserver()
        disc.execution_status.add_observer(obs)
    # settings changed after creation / after use, through the public API
    done = apply_edits(disc, case.get("edits"), pre_inputs)
    out.info["edits_done"] = [k for k, _, _ in done]
    seen_inputs = list(pre_inputs) if moment != "fresh" or any(k == "use" for k, _, _ in done) else []
    return disc, pre_inputs, done, seen_inputs


def run_discipline_case(case: dict[str, Any], tmp: Path) -> Outcome:
    out = Outcome()
    rng = common.make_rng(int(case.get("seed", 0)), "c20-inputs")
    lived = live_discipline(case, tmp, rng, out)
    if lived is None:
        return out
    disc, pre_inputs, done, seen_inputs = lived
    moment = case.get("moment", "fresh")

    # ---- (a) serialize + restore
    # (a *blind* case serializes before the harness observes anything: an observation - reading `schema`,
    #  iterating a cache - may refresh what the object built lazily and hide a stale member from the state)
    blind = bool(case.get("blind"))
    out.info["blind"] = blind
    view0 = None if blind else OBS.discipline_view(disc)
    try:
        copy = OBS.roundtrip(disc, case.get("serializer", "pickle"), tmp, f"p{_COUNTER[0]}")
    except Exception as e:  # noqa: BLE001
        out.fail("serialize-raises", f"{type(e).__name__}: {str(e)[:200]}")
        return out
    if blind:
        try:
            view0 = OBS.discipline_view(disc)
        except Exception as e:  # noqa: BLE001
            out.fail("original-broken", f"viewing the original after serialization raises {type(e).__name__}: {e}")
            return out
    # ---- (c) original unaltered
    try:
        view0b = OBS.discipline_view(disc)
    except Exception as e:  # noqa: BLE001
        out.fail("original-broken", f"viewing the original after serialization raises {type(e).__name__}: {e}")
        return out
    d = OBS.diff_views(view0, view0b)
    if d:
        out.fail("original-altered", "serializing altered the original: " + "; ".join(d[:3]))
    # ---- (b) same public face
    try:
        view1 = OBS.discipline_view(copy)
    except Exception as e:  # noqa: BLE001
        out.fail("copy-broken", f"viewing the restored object raises {type(e).__name__}: {str(e)[:200]}")
        return out
    d = OBS.diff_views(view0, view1)
    if d:
        kind = "view-differs:" + d[0].split(":")[0].strip("/").split("/")[0]
        out.fail(kind, "restored object differs from the original: " + "; ".join(d[:3]))
    check_edits_carried(out, copy, done)
    # grammar validation verdicts
    for gname in ("input_grammar", "output_grammar"):
        g0, g1 = getattr(disc.io, gname), getattr(copy.io, gname)
        s0, s1 = OBS.schema_view(g0), OBS.schema_view(g1)
        if s0 != s1:
            out.fail(f"view-differs:{gname}", f"{gname}.schema: " + "; ".join(OBS.diff_views(s0, s1)[:3]))
        for data in OBS.grammar_probe_data(g0, rng):
            a, b = OBS.validate_outcome(g0, data), OBS.validate_outcome(g1, data)
            if a != b:
                out.fail(
                    "grammar-validation-differs",
                    f"{gname}.validate({ {k: (v.tolist() if hasattr(v, 'tolist') else v) for k, v in data.items()} }) "
                    f"original={a} copy={b}",
                )
    # ---- (d) no shared mutable state
    shared = OBS.shared_state(disc, copy)
    if shared:
        out.fail("shared-state", "mutable objects shared by original and copy: " + "; ".join(shared[:4]))

    # ---- (d') using the copy leaves the original untouched; (e) same behaviour
    # Reference of the behaviour: the original itself; with a file-based cache the original and the copy
    # are attached to the same file and node (by design), so the reference is a *twin*: the same recipe
    # with the same life on its own file, never serialized.
    file_cache = case.get("cache") == "HDF5Cache"
    if file_cache:
        try:
            ref = build_discipline(case, tmp)
            if moment in ("executed", "linearized"):
                for x in pre_inputs:
                    ref.execute(_fresh(x))
            if moment == "linearized":
                ref.linearize(_fresh(pre_inputs[-1]), compute_all_jacobians=True)
            apply_edits(ref, case.get("edits"), pre_inputs)
        except Exception as e:  # noqa: BLE001
            out.status = "skipped"
            out.detail = f"twin cannot be built: {type(e).__name__}: {e}"
            return out
        dd = OBS.diff_views(_strip_file(_strip_runtime(view0)), _strip_file(_strip_runtime(OBS.discipline_view(ref))))
        if dd:
            out.status = "skipped"
            out.detail = "recipe is not deterministic (twin differs from the original): " + "; ".join(dd[:2])
            return out
    else:
        ref = disc
    n_post = int(case.get("n_post", 2))
    post_inputs = [gen_inputs(disc, rng) for _ in range(n_post)]
    if moment != "fresh" and pre_inputs:
        post_inputs.append(pre_inputs[-1])  # an input already seen (cache hit path)
    extra = near_inputs(disc, done, seen_inputs)
    out.info["near_inputs"] = len(extra)
    post_inputs = extra + post_inputs  # (first: while the caches still hold what the life left in them)
    first = True
    cplx = is_complex_configured(disc)
    out.info["near_hits"] = 0
    for ix, x in enumerate(post_inputs):
        before = OBS.discipline_view(disc) if first else None
        n_ref_before = ref.execution_statistics.n_executions
        rc, mc = _exec_view(copy, x)
        if first:
            after = OBS.discipline_view(disc)
            if file_cache:
                before.pop("cache")
                after.pop("cache")
            dd = OBS.diff_views(before, after)
            if dd:
                out.fail("copy-affects-original", "executing the copy changed the original: " + "; ".join(dd[:3]))
        if cplx and rc[0] == "out" and any(isinstance(v, np.ndarray) and v.dtype.kind == "c" and bool(np.any(v.imag != 0.0)) for v in x.values()):
            out.info["complex_inputs"] = True  # (histogram only)
        ro, mo = _exec_view(ref, x)
        if ix < len(extra) and ro[0] == "out" and ref.execution_statistics.n_executions == n_ref_before:
            out.info["near_hits"] += 1  # (histogram only: the reference answered from its cache)
        if ro != rc:
            xs = {k: np.asarray(v).tolist() for k, v in x.items()}
            if ro[0] == "exc" or rc[0] == "exc":
                out.fail("execute-differs", f"execute({xs}): original -> {mo or 'outputs'}; copy -> {mc or 'outputs'}")
            else:
                out.fail("execute-differs", f"execute({xs}): " + "; ".join(OBS.diff_views(ro[1], rc[1])[:3]))
        if moment == "linearized" or case.get("post_linearize", True):
            jo, mo = _lin_view(ref, x)
            jc, mc = _lin_view(copy, x)
            if cplx and jc[0] == "jac" and str(getattr(copy, "linearization_mode", "")) == "complex_step":
                out.info["complex_step"] = True  # (histogram only)
            if jo != jc:
                xs = {k: np.asarray(v).tolist() for k, v in x.items()}
                if jo[0] == "exc" or jc[0] == "exc":
                    out.fail("linearize-differs", f"linearize({xs}): original -> {mo or 'jac'}; copy -> {mc or 'jac'}")
                else:
                    out.fail("linearize-differs", f"linearize({xs}): " + "; ".join(OBS.diff_views(jo[1], jc[1])[:3]))
        first = False
    if file_cache and copy.cache is not None and type(copy.cache).__name__ == "HDF5Cache":
        # the copy stays attached to the file: what it cached is on the disk, at the original's file and node
        try:
            from gemseo.caches.hdf5_cache import HDF5Cache

            re_attached = HDF5Cache(hdf_file_path=view0["cache"]["file"], hdf_node_path=view0["cache"]["node"])
            a, b = OBS.cache_view(copy.cache)["entries"], OBS.cache_view(re_attached)["entries"]
            if a != b:
                out.fail("file-cache-detached", f"entries seen by the copy ({len(a)}) are not the entries of the original's file and node ({len(b)})")
        except Exception as e:  # noqa: BLE001
            out.fail("file-cache-detached", f"re-attaching to the original's file raises {type(e).__name__}: {e}")
    try:
        va, vb = _strip_runtime(OBS.discipline_view(ref)), _strip_runtime(OBS.discipline_view(copy))
        if file_cache:
            va, vb = _strip_file(va), _strip_file(vb)
        dd = OBS.diff_views(va, vb)
        if dd:
            out.fail("view-differs-after-use:" + dd[0].split(":")[0].strip("/").split("/")[0], "after the same usage: " + "; ".join(dd[:3]))
    except Exception as e:  # noqa: BLE001
        out.fail("copy-broken", f"viewing after use raises {type(e).__name__}: {str(e)[:200]}")
    # second generation: a copy of the copy must still work (hooks must leave a serializable object)
    try:
        copy2 = OBS.roundtrip(copy, case.get("serializer", "pickle"), tmp, f"q{_COUNTER[0]}")
        dd = OBS.diff_views(_strip_runtime(OBS.discipline_view(copy)), _strip_runtime(OBS.discipline_view(copy2)))
        if dd:
            out.fail("second-generation-differs", "copy of the copy differs: " + "; ".join(dd[:3]))
    except Exception as e:  # noqa: BLE001
        out.fail("second-generation-raises", f"serializing the restored object raises {type(e).__name__}: {str(e)[:200]}")
    if post_inputs:
        check_approximation_step(out, copy, done, post_inputs[-1])
    return out
