"""C16 — histories on ONE `DisciplineJacApprox` / one discipline in an approximation mode.

The property quantifies over "the discipline-level wrappers (linearization modes, check_jacobian with indices)":
every request made to such a wrapper must return, for every requested (output, input) pair, a block of the
right shape whose entries are within the scheme's bound *at the requested point and for the step in force* —
whatever was requested before from the same object.  This module forms the histories the single-request
streams never form:

* api ``approx``: one discipline + one ``DisciplineJacApprox``; successive ``compute_approx_jac`` /
  ``check_jacobian`` requests (each after ``discipline.execute(point)``) with the same or other output names,
  the same or other input names or name orders, ``x_indices``, the ``step`` attribute changed in between,
  the same or another point — points that differ from the default inputs of the discipline;
* api ``disc``: one discipline in an approximation mode (``set_jacobian_approximation``); successive
  ``linearize(input_data)`` after ``add_differentiated_inputs/outputs`` (the differentiated sets only grow),
  ``linearize(compute_all_jacobians=True)``, ``Discipline.check_jacobian(input_data, input_names=…,
  output_names=…, indices=…)`` followed by the ``linearization_mode`` setter (which keeps the existing
  ``DisciplineJacApprox``); with the default cache, without cache and with a memory-full cache;
* (round 3) input data that leave inputs to their DEFAULT values (only the differentiated inputs passed, nothing at
  all, any subset) after requests made at other points — the requested point is the passed values completed by the
  default inputs the discipline was built with (`eff_x`) —, the default inputs observed after every request through
  ``io.input_grammar.defaults`` and ``default_input_data`` (an approximation must leave them unchanged: they define the
  point of every later request relying on them), and ``Discipline.check_jacobian`` with its documented options
  (``auto_set_step`` True / False / default, ``linearization_mode``, partial or no ``input_data``, ``step``, ``indices``).

Correspondence: every request is sent to the Lean driver (`req` line, session state = the default step; `dreq` line
when inputs are left to their defaults or ``auto_set_step`` is used: the model completes the point from the defaults
and prints the defaults after the request);
the blocks must be the model's (exactly on the exact stream; 2^-51 relative where a float division rounds).
Oracle (property text): requested blocks present, of shape (size(output), size(input)), finite, every entry of a
differentiated component within the analytic bound of the scheme around the exact partial derivative *at the
requested point*; ``check_jacobian`` accepts the exact analytic Jacobian and rejects a wrong selected entry.
"""

from __future__ import annotations

import json
import math
from fractions import Fraction
from typing import Any

import numpy as np

from harness import c16 as base
from harness import common
from harness.c16_funcs import PolyDiscipline
from harness.c16_funcs import eval_poly
from harness.c16_funcs import poly_partial
from harness.common import F
from harness.common import Result
from harness.common import rat

PID = "C16"
MODE = base.MODE

# --------------------------------------------------------------------------- geometry of names


def slices(sizes) -> dict[str, tuple[int, int]]:
    out, pos = {}, 0
    for name, s in sizes:
        out[name] = (pos, s)
        pos += s
    return out


def comps(sizes, names) -> list[int]:
    """Global (flat) component indices of the named variables, in the order of the names."""
    sl = slices(sizes)
    return [sl[nm][0] + t for nm in names for t in range(sl[nm][1])]


def positions(sizes, names) -> list[int]:
    order = [nm for nm, _ in sizes]
    return [order.index(nm) for nm in names]


def step_str(st) -> str:
    return "v:" + ",".join(st) if isinstance(st, list) else "s:" + st


def point_data(hist, x, given=None) -> dict[str, np.ndarray]:
    """The input data passed to the discipline: every input, or the ``given`` names only (the others are left to
    the default inputs of the discipline)."""
    sl = slices(hist["in_sizes"])
    return {nm: np.array([float(Fraction(v)) for v in x[a : a + s]]) for nm, (a, s) in sl.items()
            if given is None or nm in given}


def eff_x(hist, op) -> list[str]:
    """The requested point, from the documented semantics of input data: the values passed for the ``given`` names
    (``None`` = every input is passed), the DEFAULT inputs of the discipline for the others."""
    given = op.get("given")
    if given is None:
        return list(op["x"])
    sl = slices(hist["in_sizes"])
    x = list(hist["defaults"])
    for nm in given:
        a, s = sl[nm]
        x[a : a + s] = op["x"][a : a + s]
    return x


# --------------------------------------------------------------------------- the single-request view of an op


def request_of(hist, op, state) -> dict[str, Any] | None:
    """What an op asks for, from the documented semantics: names, x_indices, point, step in force.
    ``state``: {"step": current step, "dins": set, "douts": set} (differentiated names of api ``disc``)."""
    kind = op["op"]
    in_names = [nm for nm, _ in hist["in_sizes"]]
    out_names = [nm for nm, _ in hist["out_sizes"]]
    if kind in ("jac", "chk", "lin", "dchk"):
        op = dict(op, x=eff_x(hist, op))
    if kind == "jac":
        return {"ins": op["ins"], "outs": op["outs"], "xidx": op["xidx"], "x": op["x"], "step": state["step"]}
    if kind == "chk":
        cols = sel_global(hist["in_sizes"], op["ins"], op["sel"])
        return {"ins": op["ins"], "outs": op["outs"], "xidx": cols if has_sel(op["sel"], op["ins"]) or has_sel(op["sel"], op["outs"]) else [],
                "x": op["x"], "step": state["step"]}
    if kind == "lin":
        if op.get("all"):
            ins, outs = in_names, out_names
        else:
            ins = [nm for nm in in_names if nm in state["dins"]]
            outs = [nm for nm in out_names if nm in state["douts"]]
        return {"ins": ins, "outs": outs, "xidx": [], "x": op["x"], "step": state["step"], "any_order": True}
    if kind == "dchk":
        ins = op["ins"] or in_names
        outs = op["outs"] or out_names
        cols = sel_global(hist["in_sizes"], ins, op["sel"])
        return {"ins": ins, "outs": outs, "xidx": cols if has_sel(op["sel"], ins) or has_sel(op["sel"], outs) else [],
                "x": op["x"], "step": op["step"]}
    return None


def has_sel(sel, names) -> bool:
    return any(nm in sel for nm in names)


def sel_global(sizes, names, sel) -> list[int]:
    """Documented meaning of ``indices``: per name the selected components, offset by the position of the name
    in the request (missing name = all components)."""
    sz = dict((nm, s) for nm, s in sizes)
    out, pos = [], 0
    for nm in names:
        out += [pos + t for t in base._sel_local(sel.get(nm), sz[nm])]
        pos += sz[nm]
    return out


def eq_case(hist, req) -> dict[str, Any]:
    """The approximator-level case equivalent to a request: the full function at the requested point, the
    differentiated global components, the step of each of them (a per-component step has one entry per component
    of the request's input vector, in the order of the request)."""
    n = hist["n"]
    cs = comps(hist["in_sizes"], req["ins"])
    st = req["step"]
    eff = req["xidx"] if req["xidx"] else list(range(len(cs)))
    if isinstance(st, list):
        per = {cs[k]: st[k] for k in range(min(len(cs), len(st)))}
        step = [per.get(c, st[0]) for c in range(n)]
    else:
        step = st
    return {"scheme": hist["scheme"], "n": n, "m": hist["m"], "polys": hist["polys"], "x": req["x"],
            "idx": sorted(cs[k] for k in eff), "step": step, "ds": None}


def req_ok(hist, req) -> bool:
    cs = comps(hist["in_sizes"], req["ins"])
    st = req["step"]
    if isinstance(st, list) and len(st) != len(cs):
        return False
    if len(set(req["xidx"])) != len(req["xidx"]) or any(not 0 <= k < len(cs) for k in req["xidx"]):
        return False
    eq = eq_case(hist, req)
    return base.in_scope(eq) and base.exact_ok(eq)


def req_line(hist, req, default_step: bool = True) -> str:
    ins = req["ins"]
    outs = req["outs"]
    if req.get("any_order"):
        pass  # canonical (grammar) order; the blocks do not depend on the order for a scalar step
    st = "default" if default_step else step_str(req["step"])
    return (
        f"req {hist['scheme']} {'par' if hist.get('parallel') else 'ser'} "
        f"isz={','.join(str(s) for _, s in hist['in_sizes'])} osz={','.join(str(s) for _, s in hist['out_sizes'])} "
        f"x={','.join(rat(Fraction(v)) for v in req['x'])} "
        f"ins={','.join(str(p) for p in positions(hist['in_sizes'], ins)) or '[]'} "
        f"outs={','.join(str(p) for p in positions(hist['out_sizes'], outs)) or '[]'} "
        f"xidx={','.join(str(k) for k in req['xidx']) or '[]'} step={st} poly={base.poly_str(hist['polys'])}"
    )


def dreq_line(hist, op, req, default_step: bool = True) -> str:
    """`dreq` line: the model completes the passed input data with the default inputs itself (`complete`), runs
    `auto_set_step` / the execution / the approximation in the order of the code and shows the defaults afterwards."""
    given = [nm for nm, _ in hist["in_sizes"]] if op.get("given") is None else op["given"]
    st = "default" if default_step else step_str(req["step"])
    return (
        f"dreq {hist['scheme']} {'par' if hist.get('parallel') else 'ser'} "
        f"isz={','.join(str(s) for _, s in hist['in_sizes'])} osz={','.join(str(s) for _, s in hist['out_sizes'])} "
        f"d={','.join(rat(Fraction(v)) for v in hist['defaults'])} "
        f"given={','.join(str(p) for p in positions(hist['in_sizes'], given)) or '[]'} "
        f"v={','.join(rat(Fraction(v)) for v in op['x'])} auto={1 if op.get('auto') else 0} "
        f"last={','.join(rat(Fraction(v) - 1) for v in hist['defaults'])} "
        f"ins={','.join(str(p) for p in positions(hist['in_sizes'], req['ins'])) or '[]'} "
        f"outs={','.join(str(p) for p in positions(hist['out_sizes'], req['outs'])) or '[]'} "
        f"xidx={','.join(str(k) for k in req['xidx']) or '[]'} step={st} poly={base.poly_str(hist['polys'])}"
    )


def split_answer(ans: str) -> tuple[str, list[Fraction] | None]:
    """(`req` part, default inputs after the request according to the model — `dreq` lines only)."""
    if " D=" in ans:
        a, d = ans.split(" D=", 1)
        return a, ([] if d == "[]" else [Fraction(t) for t in d.split(",")])
    return ans, None


def defaults_vs_model(hist, o, model_defaults) -> str:
    got = o.get("defaults")
    if model_defaults is None or not isinstance(got, list):
        return ""
    try:
        flat = [F(float(v)) for nm, _ in hist["in_sizes"] for v in got[0][nm]]
    except Exception:  # noqa: BLE001
        return f"default inputs after the request: implementation {got[0]}, model {[rat(v) for v in model_defaults]}"
    if flat != model_defaults:
        return f"default inputs after the request: implementation {[rat(v) for v in flat]}, model {[rat(v) for v in model_defaults]}"
    return ""


def hist_lines(hist) -> tuple[list[str], list[int | None]]:
    """Protocol lines of a history and, per op, the index of its `req` line (None for setstep)."""
    lines = ["new " + step_str(hist["step"])]
    where: list[int | None] = []
    state = {"step": hist["step"], "dins": set(), "douts": set()}
    for op in hist["ops"]:
        if op["op"] == "setstep":
            lines.append("setstep " + step_str(op["step"]))
            state["step"] = op["step"]
            where.append(None)
            continue
        advance(hist, op, state)
        req = request_of(hist, op, state)
        where.append(len(lines))
        if op.get("given") is not None or op.get("auto"):
            lines.append(dreq_line(hist, op, req, default_step=op["op"] != "dchk"))
        else:
            lines.append(req_line(hist, req, default_step=op["op"] != "dchk"))
    return lines, where


def advance(hist, op, state) -> None:
    """Documented effect of an op on the differentiated names of the discipline (api ``disc``)."""
    if op["op"] == "lin":
        state["dins"] |= set(op.get("add_ins", []))
        state["douts"] |= set(op.get("add_outs", []))
        if op.get("all"):
            # differentiating everything adds every name to the differentiated sets (they only grow)
            state["dins"] |= {nm for nm, _ in hist["in_sizes"]}
            state["douts"] |= {nm for nm, _ in hist["out_sizes"]}
    elif op["op"] == "dchk":
        state["dins"] |= set(op["ins"] or [nm for nm, _ in hist["in_sizes"]])
        state["douts"] |= set(op["outs"] or [nm for nm, _ in hist["out_sizes"]])


# --------------------------------------------------------------------------- generation


def _ordered_subset(rng, names, kmin=1):
    k = rng.randint(kmin, len(names))
    return rng.sample(list(names), k)


def gen_sel(rng, hist, ins, outs) -> dict[str, Any]:
    sz = dict((nm, s) for nm, s in hist["in_sizes"] + hist["out_sizes"])
    sel: dict[str, Any] = {}
    for nm in ins:
        r = rng.random()
        s = sz[nm]
        if r < 0.4:
            continue
        if r < 0.6:
            sel[nm] = rng.randrange(s)
        elif r < 0.85:
            sel[nm] = rng.sample(range(s), rng.randint(1, s))
        elif r < 0.93:
            sel[nm] = "ellipsis"
        else:
            sel[nm] = ["slice", 0, rng.randint(1, s)]
    for nm in outs:
        r = rng.random()
        s = sz[nm]
        if r < 0.5:
            continue
        if r < 0.7:
            sel[nm] = rng.randrange(s)
        else:
            sel[nm] = sorted(rng.sample(range(s), rng.randint(1, s)))
    return sel


def gen_hist(rng, api: str | None = None) -> dict[str, Any]:
    api = api or rng.pick(["approx", "disc"])
    n_in = rng.pick([2, 2, 3])
    in_sizes = [[f"x{i}", rng.pick([1, 1, 2])] for i in range(n_in)]
    n_out = rng.pick([2, 2, 3])
    out_sizes = [[f"y{i}", rng.pick([1, 1, 2])] for i in range(n_out)]
    n = sum(s for _, s in in_sizes)
    m = sum(s for _, s in out_sizes)
    scheme = rng.pick(["fd", "fd", "cd", "cs"])
    deg = rng.pick([2, 2, 3])
    smax = {2: 16, 3: 11}[deg]
    in_names = [nm for nm, _ in in_sizes]
    out_names = [nm for nm, _ in out_sizes]

    def rand_point():
        return [rat(Fraction(0) if rng.chance(0.15) else Fraction(rng.randint(-8, 8), 4)) for _ in range(n)]

    def rand_step(k: int | None):
        if k is not None:
            return [rat(Fraction(1, 2 ** rng.randint(8, smax))) for _ in range(k)]
        return rat(Fraction(1, 2 ** rng.randint(8, smax)))

    for _attempt in range(50):
        polys = base.gen_polys(rng, n, m, deg)
        # every output depends on every input name often enough for a mixed-up function to be visible
        defaults = rand_point()
        points = [rand_point() for _ in range(2)]
        if rng.chance(0.15):
            points[0] = list(defaults)
        hist = {
            "scheme": scheme, "in_sizes": in_sizes, "out_sizes": out_sizes, "n": n, "m": m, "polys": polys,
            "defaults": defaults, "api": api, "step": rand_step(None), "parallel": rng.chance(0.08),
            "cache": rng.pick(["simple", "simple", "none", "memory_full"]), "ops": [],
        }
        state = {"step": hist["step"], "dins": set(), "douts": set()}
        prev = None
        ok = True
        nops = rng.randint(2, 5)
        while len([o for o in hist["ops"] if o["op"] != "setstep"]) < nops and ok:
            made = False
            for _try in range(12):
                x = points[0] if rng.chance(0.65) else points[1]
                new_ops: list[dict[str, Any]] = []
                st_state = dict(state, dins=set(state["dins"]), douts=set(state["douts"]))
                if api == "approx":
                    r = rng.random()
                    if prev is not None and r < 0.45:
                        ins = list(prev["ins"])  # the same input names in the same order, other outputs
                        cand = [o for o in (_ordered_subset(rng, out_names) for _ in range(6)) if o != prev["outs"]]
                        outs = cand[0] if cand else _ordered_subset(rng, out_names)
                    elif prev is not None and r < 0.6:
                        outs = list(prev["outs"])
                        ins = _ordered_subset(rng, in_names)
                    elif prev is not None and r < 0.7:
                        ins, outs = list(prev["ins"]), list(prev["outs"])
                    else:
                        ins, outs = _ordered_subset(rng, in_names), _ordered_subset(rng, out_names)
                    k = len(comps(in_sizes, ins))
                    cur = st_state["step"]
                    need = isinstance(cur, list) and len(cur) != k
                    if need or rng.chance(0.3):
                        vec = scheme != "cs" and rng.chance(0.4)
                        st = rand_step(k if vec else None)
                        new_ops.append({"op": "setstep", "step": st})
                        st_state["step"] = st
                    kind = rng.pick(["jac", "jac", "jac", "chk"])
                    if kind == "jac":
                        xidx = rng.sample(range(k), rng.randint(1, k)) if rng.chance(0.3) else []
                        op = {"op": "jac", "x": x, "outs": outs, "ins": ins, "xidx": xidx}
                    else:
                        op = {"op": "chk", "x": x, "outs": outs, "ins": ins,
                              "sel": gen_sel(rng, hist, ins, outs) if rng.chance(0.6) else {}, "wrong": None, "threshold_pow": 0}
                else:
                    kind = rng.pick(["lin", "lin", "lin", "dchk", "dchk"])
                    if kind == "lin":
                        if rng.chance(0.12):
                            op = {"op": "lin", "x": x, "add_ins": [], "add_outs": [], "all": True}
                        else:
                            miss_i = [nm for nm in in_names if nm not in st_state["dins"]]
                            miss_o = [nm for nm in out_names if nm not in st_state["douts"]]
                            add_i = _ordered_subset(rng, miss_i) if miss_i and (not st_state["dins"] or rng.chance(0.35)) else []
                            add_o = _ordered_subset(rng, miss_o) if miss_o and (not st_state["douts"] or rng.chance(0.6)) else []
                            if rng.chance(0.5) and len(add_i) > 1 and not st_state["dins"]:
                                add_i = add_i[:1]
                            if rng.chance(0.6) and len(add_o) > 1:
                                add_o = add_o[:1]
                            op = {"op": "lin", "x": x, "add_ins": add_i, "add_outs": add_o, "all": False}
                    else:
                        ins = [] if rng.chance(0.2) else _ordered_subset(rng, in_names)
                        outs = [] if rng.chance(0.2) else _ordered_subset(rng, out_names)
                        op = {"op": "dchk", "x": x, "ins": ins, "outs": outs, "step": rand_step(None),
                              "sel": gen_sel(rng, hist, ins or in_names, outs or out_names) if rng.chance(0.5) else {},
                              "wrong": None, "threshold_pow": 0}
                advance(hist, op, st_state)
                # input data that leave some inputs to the DEFAULT inputs of the discipline: only the differentiated
                # inputs are passed, nothing at all (``linearize()``), or any subset of the names
                if rng.chance(0.4):
                    r = rng.random()
                    if op["op"] == "lin":
                        diffd = in_names if op.get("all") else [nm for nm in in_names if nm in st_state["dins"]]
                    else:
                        diffd = list(op["ins"]) or in_names
                    if r < 0.5:
                        op["given"] = list(diffd)
                    elif r < 0.7:
                        op["given"] = []
                    else:
                        op["given"] = rng.sample(in_names, rng.randint(0, len(in_names) - 1))
                if op["op"] == "dchk":
                    op["lmode"] = rng.pick(["auto", "auto", "direct", "adjoint"])
                    op["explicit"] = rng.chance(0.5)
                    op["auto"] = scheme in ("fd", "cd") and rng.chance(0.6)
                req = request_of(hist, op, st_state)
                if not req["ins"] or not req["outs"] or not req_ok(hist, req):
                    continue
                if op["op"] in ("chk", "dchk"):
                    if op.get("auto") and auto_bound(hist, op, req) is None:
                        op["auto"] = False
                    add_check_data(rng, hist, op, req)
                    if op.get("auto") and op["threshold_pow"] > -6:
                        op["auto"] = False
                        add_check_data(rng, hist, op, req)
                hist["ops"] += new_ops + [op]
                state = st_state
                prev = req
                made = True
                break
            ok = made
        if ok:
            return hist
    raise RuntimeError("could not generate an exactly representable history")


def add_check_data(rng, hist, op, req) -> None:
    """Threshold 2**p >= 4 x the analytic bound of every entry; optionally a wrong analytic entry far outside."""
    eq = eq_case(hist, req)
    maxb, maxd = Fraction(0), Fraction(0)
    for j in range(hist["m"]):
        for c in eq["idx"]:
            D, allowed, _ = base.allowed_bound(eq, j, c)
            maxb, maxd = max(maxb, allowed), max(maxd, abs(D))
    if op.get("auto"):
        # the step is the "optimal" one computed by GEMSEO at the default inputs: error bound over its admissible range
        maxb = 2 * auto_bound(hist, op, req)
    op["wrong"] = None
    p = max(-20, base._pow2_at_least(4 * maxb))
    op["threshold_pow"] = p
    wrong_ok = op["op"] == "chk" or hist["cache"] == "none"
    if wrong_ok and rng.chance(0.4):
        t = Fraction(2) ** p
        w = 2 * (t * (2 + maxd + maxb) + maxb)
        delta = Fraction(2) ** base._pow2_at_least(w) * rng.pick([1, -1])
        rows = comps(hist["out_sizes"], req["outs"])
        cols = comps(hist["in_sizes"], req["ins"])
        op["wrong"] = {"row": rng.pick(rows), "col": rng.pick(cols), "delta": rat(delta)}


EPS = Fraction(1, 2**52)


def auto_step_range(hist, op, req) -> dict[int, tuple[Fraction, Fraction]] | None:
    """Range [s/2, 2s] of the documented "optimal step" of ``auto_set_step`` per differentiated global component:
    ``s = 2 sqrt(eps |f(x0)| / |f''(x0)|)`` at the DEFAULT inputs ``x0`` (second difference with the ``step`` argument;
    ``step`` itself where the second difference vanishes), whichever requested output GEMSEO retains.  ``None`` when the
    formula is degenerate (an output that is 0 at the default inputs gives the step 0; a second difference that is
    neither 0 nor clearly above GEMSEO's 1e-10 switch) — such requests are not generated."""
    x0 = base.frl(hist["defaults"])
    h = Fraction(op["step"])
    hf = float(h)
    rows = comps(hist["out_sizes"], req["outs"])
    out: dict[int, tuple[Fraction, Fraction]] = {}
    for c in comps(hist["in_sizes"], req["ins"]):
        cands: list[Fraction] = []
        for j in rows:
            p = hist["polys"][j]
            xp, xm = list(x0), list(x0)
            xp[c] = x0[c] + h
            xm[c] = x0[c] - h
            f0, fp, fm = (float(eval_poly(p, pt)) for pt in (x0, xp, xm))
            hess = (fp - 2 * f0 + fm) / hf**2
            if hess == 0.0:
                cands.append(h)
            elif abs(hess) >= 1e-6 and f0 != 0.0 and math.isfinite(hess):
                cands.append(F(2 * math.sqrt(2.0**-52 * abs(f0) / abs(hess))))
            else:
                return None
        out[c] = (min(cands) / 2, max(cands) * 2)
    return out


def auto_bound(hist, op, req) -> Fraction | None:
    """Largest admissible error of an entry of the reference Jacobian of ``check_jacobian(auto_set_step=True)`` at the
    requested point: truncation error of the scheme for the largest admissible step + rounding of the function values
    and of the perturbed point for the smallest one."""
    rng_ = auto_step_range(hist, op, req)
    if rng_ is None:
        return None
    x = base.frl(req["x"])
    eq = eq_case(hist, req)
    worst = Fraction(0)
    for c in eq["idx"]:
        lo, hi = rng_[c]
        if not 0 < lo <= hi <= Fraction(1, 16):
            return None
        for j in comps(hist["out_sizes"], req["outs"]):
            p = hist["polys"][j]
            d1 = poly_partial(p, c)
            d2 = poly_partial(d1, c)
            d3 = poly_partial(d2, c)
            if hist["scheme"] == "fd":
                trunc = hi / 2 * base.poly_abs_sup(d2, x, c, hi)
            else:
                trunc = hi * hi / 6 * base.poly_abs_sup(d3, x, c, hi)
            rnd = (2 * EPS * base.poly_abs_sup(p, x, c, hi) + EPS * (abs(x[c]) + 1) * base.poly_abs_sup(d1, x, c, hi)) / lo
            worst = max(worst, trunc + rnd)
    return worst


# --------------------------------------------------------------------------- implementation


def exact_jac(hist, x) -> list[list[Fraction]]:
    xs = base.frl(x)
    return [[eval_poly(poly_partial(p, c), xs) for c in range(hist["n"])] for p in hist["polys"]]


def analytic_dict(hist, op, outs, ins) -> dict[str, dict[str, np.ndarray]]:
    E = exact_jac(hist, eff_x(hist, op))
    A = np.array([[float(v) for v in row] for row in E])
    if op.get("wrong"):
        w = op["wrong"]
        A[w["row"], w["col"]] += float(Fraction(w["delta"]))
    so, si = slices(hist["out_sizes"]), slices(hist["in_sizes"])
    return {o: {i_: A[so[o][0] : so[o][0] + so[o][1], si[i_][0] : si[i_][0] + si[i_][1]].copy() for i_ in ins} for o in outs}


def _step_py(st):
    return [float(Fraction(s)) for s in st] if isinstance(st, list) else float(Fraction(st))


def _indices_py(sel):
    return {k: base._sel_to_py(v) for k, v in sel.items()}


def run_hist(hist) -> list[dict[str, Any]]:
    from gemseo.core.discipline import Discipline
    from gemseo.utils.derivatives.derivatives_approx import DisciplineJacApprox

    in_sizes = {k: s for k, s in hist["in_sizes"]}
    out_sizes = {k: s for k, s in hist["out_sizes"]}
    obs: list[dict[str, Any]] = []
    try:
        d = PolyDiscipline(in_sizes, out_sizes, hist["polys"], base.frl(hist["defaults"]))
        if hist.get("cache") == "none":
            d.set_cache(Discipline.CacheType.NONE)
        elif hist.get("cache") == "memory_full":
            d.set_cache(Discipline.CacheType.MEMORY_FULL)
        par = {"parallel": True, "n_processes": 2} if hist.get("parallel") else {}
        ap = None
        if hist["api"] == "approx":
            ap = DisciplineJacApprox(d, approx_method=MODE[hist["scheme"]], step=_step_py(hist["step"]), **par)
        else:
            d.set_jacobian_approximation(
                jac_approx_type=MODE[hist["scheme"]], jax_approx_step=_step_py(hist["step"]),
                jac_approx_n_processes=2 if hist.get("parallel") else 1,
            )
    except Exception as e:  # noqa: BLE001
        return [{"exc": "constructor: " + common.exc_class(e) + ": " + repr(e)[:120]}]
    for op in hist["ops"]:
        o: dict[str, Any] = {}
        try:
            kind = op["op"]
            if kind == "setstep":
                ap.step = _step_py(op["step"])
                o["ok"] = True
            elif kind == "jac":
                d.execute(point_data(hist, op["x"], op.get("given")))
                o["jac"] = _jac_lists(ap.compute_approx_jac(list(op["outs"]), list(op["ins"]), list(op["xidx"])))
            elif kind == "chk":
                d.execute(point_data(hist, op["x"], op.get("given")))
                o["verdict"] = bool(ap.check_jacobian(
                    list(op["outs"]), list(op["ins"]), analytic_jacobian=analytic_dict(hist, op, op["outs"], op["ins"]),
                    threshold=float(Fraction(2) ** op["threshold_pow"]), indices=_indices_py(op["sel"]),
                ))
            elif kind == "lin":
                if op.get("add_ins"):
                    d.add_differentiated_inputs(list(op["add_ins"]))
                if op.get("add_outs"):
                    d.add_differentiated_outputs(list(op["add_outs"]))
                data = point_data(hist, op["x"], op.get("given"))
                if data or op.get("given") is None:
                    jac = d.linearize(data, compute_all_jacobians=bool(op.get("all")))
                else:
                    jac = d.linearize(compute_all_jacobians=bool(op.get("all")))  # at the default inputs
                o["jac"] = _jac_lists(jac)
            elif kind == "dchk":
                w = op.get("wrong")
                d.jac_error = {(w["row"], w["col"]): Fraction(w["delta"])} if w else {}
                try:
                    data = point_data(hist, op["x"], op.get("given"))
                    opts: dict[str, Any] = {}
                    if op.get("auto"):
                        opts["auto_set_step"] = True
                    elif op.get("explicit"):
                        opts["auto_set_step"] = False  # the default value, passed explicitly
                    if op.get("lmode", "auto") != "auto" or op.get("explicit"):
                        opts["linearization_mode"] = op.get("lmode", "auto")
                    if hist.get("parallel"):
                        opts.update(parallel=True, n_processes=2)
                    o["verdict"] = bool(d.check_jacobian(
                        *([data] if data or op.get("given") is None else []),
                        derr_approx=MODE[hist["scheme"]], step=_step_py(op["step"]),
                        threshold=float(Fraction(2) ** op["threshold_pow"]), input_names=list(op["ins"]),
                        output_names=list(op["outs"]), indices=_indices_py(op["sel"]), **opts,
                    ))
                finally:
                    d.jac_error = {}
                    # back to the approximation mode: the setter keeps the existing DisciplineJacApprox
                    d.linearization_mode = MODE[hist["scheme"]]
        except Exception as e:  # noqa: BLE001
            o["exc"] = common.exc_class(e) + ": " + repr(e)[:140]
        # the default inputs of the discipline as the two public accessors show them after the request
        try:
            o["defaults"] = [_defaults_lists(d.io.input_grammar.defaults), _defaults_lists(d.default_input_data)]
        except Exception as e:  # noqa: BLE001
            o["defaults"] = "unreadable: " + common.exc_class(e) + ": " + repr(e)[:100]
        obs.append(o)
    return obs


def _defaults_lists(mapping) -> dict[str, Any]:
    return {str(k): np.asarray(v).tolist() for k, v in mapping.items()}


def defaults_failure(hist, o) -> str:
    """'' when both accessors show the default inputs the discipline was built with: same names, same values."""
    want = {nm: [float(Fraction(v)) for v in hist["defaults"][a : a + s]] for nm, (a, s) in slices(hist["in_sizes"]).items()}
    got = o.get("defaults")
    if not isinstance(got, list):
        return f"the default inputs cannot be read: {got}"
    for which, g in zip(("io.input_grammar.defaults", "default_input_data"), got):
        if sorted(g) != sorted(want):
            return f"{which} has the names {sorted(g)}, the discipline was built with {sorted(want)}"
        for nm in want:
            v = g[nm]
            if not (isinstance(v, list) and len(v) == len(want[nm]) and all(isinstance(a, float) and a == b for a, b in zip(v, want[nm]))):
                return f"{which}[{nm!r}] is {v} after the request, the discipline was built with {want[nm]}"
    return ""


def _jac_lists(jac) -> dict[str, dict[str, Any]]:
    return {o: {i_: np.asarray(jac[o][i_]) for i_ in jac[o]} for o in jac}


# --------------------------------------------------------------------------- oracle


def approx_cached_before(hist, t: int) -> bool:
    """``Discipline.check_jacobian`` (op ``t``) linearizes "analytically" through the cache of the discipline: at a
    point where an earlier ``linearize`` of the history stored an *approximated* Jacobian the cache may serve that one
    as the analytic Jacobian (cache semantics, properties C05/C11) — the verdict of such a check is not judged."""
    op = hist["ops"][t]
    if op["op"] != "dchk" or hist.get("cache", "simple") == "none":
        return False
    x = eff_x(hist, op)
    return any(o["op"] == "lin" and eff_x(hist, o) == x for o in hist["ops"][:t])


def hist_oracle(hist, op, req, o, unjudged: bool = False) -> list[tuple[str, str]]:
    sch = hist["scheme"]
    tag = f"{sch},{op['op']}"
    if "exc" in o:
        return [(f"disc-history-raises[{tag}]", o["exc"])]
    bad: list[tuple[str, str]] = []
    msg = defaults_failure(hist, o)
    if msg:
        # the point of every later request that leaves an input to its default value is defined by these values
        bad.append((f"disc-history-defaults-changed[{tag}]", msg))
    if unjudged:
        return bad
    if op["op"] in ("chk", "dchk"):
        w = op.get("wrong")
        if not w:
            if o.get("verdict") is not True:
                bad.append((f"disc-history-check-rejects-correct[{tag}]",
                            f"check_jacobian rejected the exact analytic Jacobian of {req['outs']} w.r.t. {req['ins']} at x = {req['x']}"))
        else:
            rows_sel = [comps(hist["out_sizes"], req["outs"])[k] for k in sel_global(hist["out_sizes"], req["outs"], op["sel"])]
            cols_sel = [comps(hist["in_sizes"], req["ins"])[k] for k in sel_global(hist["in_sizes"], req["ins"], op["sel"])]
            selected = w["row"] in rows_sel and w["col"] in cols_sel
            if selected and o.get("verdict") is not False:
                bad.append((f"disc-history-check-accepts-wrong[{tag}]",
                            f"check_jacobian accepted an analytic Jacobian wrong by {w['delta']} at the selected entry [{w['row']},{w['col']}]"))
            elif not selected and o.get("verdict") is not True:
                bad.append((f"disc-history-check-unselected[{tag}]",
                            f"check_jacobian rejected because of the unselected entry [{w['row']},{w['col']}]"))
        return bad
    jac = o["jac"]
    eq = eq_case(hist, req)
    so, si = slices(hist["out_sizes"]), slices(hist["in_sizes"])
    diffd = set(eq["idx"])
    for on in req["outs"]:
        if on not in jac:
            bad.append((f"disc-history-missing-block[{tag}]", f"no Jacobian for the requested output {on} (returned outputs: {sorted(jac)})"))
            return bad
        for iname in req["ins"]:
            if iname not in jac[on]:
                bad.append((f"disc-history-missing-block[{tag}]", f"no block d{on}/d{iname} (returned inputs: {sorted(jac[on])})"))
                return bad
            b = jac[on][iname]
            if b.shape != (so[on][1], si[iname][1]):
                bad.append((f"disc-history-shape[{tag}]", f"d{on}/d{iname} has shape {b.shape}, expected {(so[on][1], si[iname][1])}"))
                return bad
            for r in range(so[on][1]):
                for c in range(si[iname][1]):
                    v = b[r, c]
                    j, g = so[on][0] + r, si[iname][0] + c
                    if np.iscomplexobj(v) and v.imag != 0:
                        bad.append((f"disc-history-nonfinite[{tag}]", f"d{on}/d{iname}[{r},{c}] = {v!r} is not real"))
                        return bad
                    v = float(np.real(v))
                    if not math.isfinite(v):
                        bad.append((f"disc-history-nonfinite[{tag}]", f"d{on}/d{iname}[{r},{c}] is {v}"))
                        return bad
                    if g in diffd:
                        D, allowed, which = base.allowed_bound(eq, j, g)
                        err = abs(F(v) - D)
                        if not err <= allowed:
                            bad.append((
                                f"disc-history-error-bound[{tag}]",
                                f"d{on}/d{iname}[{r},{c}] = {v!r}, exact {float(D)!r} at x = {req['x']}: error {float(err):.3e} > {which} = {float(allowed):.3e}",
                            ))
                            return bad
    return bad


# --------------------------------------------------------------------------- model comparison


def parse_blocks(ans: str):
    """`B=blk|blk|..` (outs-major), blk = rows `r;r`, row = rats -> list of list-of-rows; or ('err', tag)."""
    if not ans.startswith("B="):
        return ("err", ans)
    out = []
    for blk in ans[2:].split("|"):
        out.append([[Fraction(t) for t in row.split(",")] for row in blk.split(";")] if blk not in ("", "-") else [])
    return ("ok", out)


def hist_compare(hist, op, req, o, ans: str) -> str:
    pm = parse_blocks(ans)
    if "exc" in o:
        return "" if pm[0] == "err" else f"implementation raised ({o['exc']}), model answers {ans[:100]}"
    if pm[0] == "err":
        return f"model rejects the request ({pm[1]}), implementation returned a Jacobian"
    if "jac" not in o:
        return ""
    blocks = pm[1]
    jac = o["jac"]
    t = 0
    for on in req["outs"]:
        for iname in req["ins"]:
            mb = blocks[t]
            t += 1
            try:
                b = np.real(jac[on][iname])
            except KeyError:
                return f"block d{on}/d{iname} is missing"
            if b.shape != (len(mb), len(mb[0]) if mb else 0):
                return f"block d{on}/d{iname} has shape {b.shape}, model {(len(mb), len(mb[0]) if mb else 0)}"
            for r, row in enumerate(mb):
                for c, mv in enumerate(row):
                    v = float(b[r, c])
                    if not math.isfinite(v) or not abs(F(v) - mv) <= base.TOL * abs(mv) + Fraction(1, 2**960):
                        return f"d{on}/d{iname}[{r},{c}]: implementation {v!r}, model {mv}"
    return ""


def served_analytic(hist, req, o) -> bool:
    """Every requested block is the analytic Jacobian of the harness discipline (exact derivatives rounded once)."""
    E = exact_jac(hist, req["x"])
    so, si = slices(hist["out_sizes"]), slices(hist["in_sizes"])
    for on in req["outs"]:
        for iname in req["ins"]:
            try:
                b = np.asarray(o["jac"][on][iname])
            except KeyError:
                return False
            if b.shape != (so[on][1], si[iname][1]):
                return False
            for r in range(so[on][1]):
                for c in range(si[iname][1]):
                    if not float(np.real(b[r, c])) == float(E[so[on][0] + r][si[iname][0] + c]):
                        return False
    return True


def chk_line(hist, op, req, ans: str) -> str | None:
    """`chk` line of the model for a check op: analytic (given) vs the model's approximated blocks."""
    pm = parse_blocks(ans)
    if pm[0] != "ok":
        return None
    rows = comps(hist["out_sizes"], req["outs"])
    cols = comps(hist["in_sizes"], req["ins"])
    so, si = slices(hist["out_sizes"]), slices(hist["in_sizes"])
    E = exact_jac(hist, req["x"])
    a = [[F(float(E[j][g])) for g in cols] for j in rows]
    if op.get("wrong"):
        w = op["wrong"]
        if w["row"] in rows and w["col"] in cols:
            rr, cc = rows.index(w["row"]), cols.index(w["col"])
            a[rr][cc] = F(float(E[w["row"]][w["col"]]) + float(Fraction(w["delta"])))
    b = [[Fraction(0)] * len(cols) for _ in rows]
    t = 0
    ro = 0
    for on in req["outs"]:
        co = 0
        for iname in req["ins"]:
            mb = pm[1][t]
            t += 1
            for r, row in enumerate(mb):
                for c, mv in enumerate(row):
                    b[ro + r][co + c] = mv
            co += si[iname][1]
        ro += so[on][1]
    rsel = sel_global(hist["out_sizes"], req["outs"], op["sel"])
    csel = sel_global(hist["in_sizes"], req["ins"], op["sel"])
    tt = rat(Fraction(2) ** op["threshold_pow"])
    return (
        f"chk t={tt} a={';'.join(','.join(rat(v) for v in r) for r in a)} "
        f"b={';'.join(','.join(rat(v) for v in r) for r in b)} "
        f"rows={','.join(str(k) for k in rsel) or '[]'} cols={','.join(str(k) for k in csel) or '[]'}"
    )


# --------------------------------------------------------------------------- shrinking


def hist_simplifications(hist):
    ops = hist["ops"]
    for t in range(len(ops)):
        c = dict(hist)
        c["ops"] = ops[:t] + ops[t + 1 :]
        yield c
    for key, val in (("parallel", False), ("cache", "simple")):
        if hist.get(key) != val:
            c = dict(hist)
            c[key] = val
            yield c
    for t, op in enumerate(ops):
        if op.get("given") is not None and op["op"] in ("jac", "lin"):
            c = dict(hist)
            c["ops"] = ops[:t] + [{k: v for k, v in op.items() if k != "given"}] + ops[t + 1 :]
            yield c
        if op.get("auto") or op.get("explicit") or op.get("lmode", "auto") != "auto":
            c = dict(hist)
            c["ops"] = ops[:t] + [dict(op, auto=False, explicit=False, lmode="auto")] + ops[t + 1 :]
            yield c
        for fld in ("xidx", "sel"):
            if op.get(fld):
                c = dict(hist)
                c["ops"] = ops[:t] + [dict(op, **{fld: [] if fld == "xidx" else {}})] + ops[t + 1 :]
                yield c
        for fld in ("outs", "ins", "add_outs", "add_ins"):
            if len(op.get(fld, [])) > 1:
                for u in range(len(op[fld])):
                    c = dict(hist)
                    c["ops"] = ops[:t] + [dict(op, **{fld: op[fld][:u] + op[fld][u + 1 :]})] + ops[t + 1 :]
                    yield c
    for j, p in enumerate(hist["polys"]):
        if len(p) > 1:
            for t in range(len(p)):
                c = dict(hist)
                c["polys"] = [q if i != j else [p[t]] for i, q in enumerate(hist["polys"])]
                yield c


def hist_valid(hist) -> bool:
    state = {"step": hist["step"], "dins": set(), "douts": set()}
    for op in hist["ops"]:
        if op["op"] == "setstep":
            state["step"] = op["step"]
            continue
        if op["op"] in ("jac", "chk") and hist["api"] != "approx":
            return False
        if op["op"] in ("lin", "dchk") and hist["api"] != "disc":
            return False
        advance(hist, op, state)
        if op.get("given") is not None and any(nm not in dict(hist["in_sizes"]) for nm in op["given"]):
            return False
        req = request_of(hist, op, state)
        if not req["ins"] or not req["outs"] or not req_ok(hist, req):
            return False
        if op.get("auto"):
            b = auto_bound(hist, op, req)
            if hist["scheme"] == "cs" or b is None or not 8 * b <= Fraction(2) ** op["threshold_pow"]:
                return False
        elif op["op"] in ("chk", "dchk"):
            # the threshold of a check was sized for the request it was generated with (>= 4 x the analytic bound)
            eq = eq_case(hist, req)
            maxb = max(base.allowed_bound(eq, j, c)[1] for j in range(hist["m"]) for c in eq["idx"])
            if not 4 * maxb <= Fraction(2) ** op["threshold_pow"]:
                return False
        if op.get("sel") and (op["op"] in ("chk", "dchk")):
            if op.get("wrong"):
                w = op["wrong"]
                if w["row"] not in comps(hist["out_sizes"], req["outs"]) or w["col"] not in comps(hist["in_sizes"], req["ins"]):
                    return False
    return any(op["op"] != "setstep" for op in hist["ops"])


def hist_failures(hist) -> list[tuple[int, str, str]]:
    obs = run_hist(hist)
    if len(obs) != len(hist["ops"]):
        return [(0, f"disc-history-raises[{hist['scheme']},constructor]", obs[0].get("exc", ""))]
    out = []
    state = {"step": hist["step"], "dins": set(), "douts": set()}
    for t, (op, o) in enumerate(zip(hist["ops"], obs)):
        if op["op"] == "setstep":
            state["step"] = op["step"]
            if "exc" in o:
                out.append((t, f"disc-history-raises[{hist['scheme']},setstep]", o["exc"]))
            continue
        advance(hist, op, state)
        req = request_of(hist, op, state)
        for k, m in hist_oracle(hist, op, req, o, approx_cached_before(hist, t)):
            out.append((t, k, m))
    return out


def shrink_hist(hist, key: str, budget: int = 60):
    cur = hist
    calls = 0
    progress = True
    while progress and calls < budget:
        progress = False
        for cand in hist_simplifications(cur):
            calls += 1
            try:
                if hist_valid(cand) and any(k == key for _, k, _ in hist_failures(cand)):
                    cur = cand
                    progress = True
                    break
            except Exception:  # noqa: BLE001
                pass
            if calls >= budget:
                break
    return cur


# --------------------------------------------------------------------------- check


def classify(prev, req) -> str:
    if prev is None:
        return "first-request"
    same_ins = prev["ins"] == req["ins"]
    same_outs = prev["outs"] == req["outs"]
    if same_ins and same_outs:
        return "same-inputs-same-outputs"
    if same_ins:
        return "same-inputs-other-outputs"
    if sorted(prev["ins"]) == sorted(req["ins"]):
        return "same-inputs-other-order" + ("" if same_outs else "-other-outputs")
    return "other-inputs" + ("-same-outputs" if same_outs else "-other-outputs")


def check_hists(res: Result, hists: list[dict[str, Any]]) -> None:
    if not hists:
        return
    all_lines: list[str] = []
    spans = []
    for h in hists:
        ls, where = hist_lines(h)
        spans.append((len(all_lines), where))
        all_lines += ls
    answers = common.run_lean_driver(PID, all_lines)
    # second round: the model's verdict of the check ops
    chk_lines: list[str] = []
    chk_pos: dict[tuple[int, int], int] = {}
    for hi, (h, (a0, where)) in enumerate(zip(hists, spans)):
        state = {"step": h["step"], "dins": set(), "douts": set()}
        for t, op in enumerate(h["ops"]):
            if op["op"] == "setstep":
                state["step"] = op["step"]
                continue
            advance(h, op, state)
            if op["op"] in ("chk", "dchk") and not op.get("auto") and not approx_cached_before(h, t):
                req = request_of(h, op, state)
                ln = chk_line(h, op, req, split_answer(answers[a0 + where[t]])[0])
                if ln is not None:
                    chk_pos[(hi, t)] = len(chk_lines)
                    chk_lines.append(ln)
    chk_answers = common.run_lean_driver(PID, chk_lines) if chk_lines else []
    for hi, (h, (a0, where)) in enumerate(zip(hists, spans)):
        res.evaluations += 1
        sch = h["scheme"]
        res.count(f"hist:api={h['api']}")
        res.count(f"hist:scheme={sch}")
        res.count(f"hist:cache={h.get('cache', 'simple')}")
        if h.get("parallel"):
            res.count("hist:parallel")
        res.nontrivial("hist " + " | ".join(all_lines[a0 : a0 + len(h["ops"]) + 1]) + json.dumps([h["api"], h.get("cache"), h["defaults"]]))
        obs = run_hist(h)
        if len(obs) != len(h["ops"]):
            res.violate("oracle", f"disc-history-raises[{sch},constructor]", obs[0].get("exc", ""), {"hist": h})
            continue
        state = {"step": h["step"], "dins": set(), "douts": set()}
        prev = None
        agree = True
        seen_points: list[Any] = []
        analytic_points: list[Any] = []
        for t, (op, o) in enumerate(zip(h["ops"], obs)):
            if op["op"] == "setstep":
                state["step"] = op["step"]
                res.count("hist-op:setstep" + (":vec" if isinstance(op["step"], list) else ""))
                if "exc" in o:
                    res.violate("oracle", f"disc-history-raises[{sch},setstep]", o["exc"], {"hist": h, "failing_op": t})
                continue
            advance(h, op, state)
            req = request_of(h, op, state)
            res.count("hist-op:" + op["op"])
            res.count("hist-request:" + classify(prev, req))
            res.count("hist-point:" + ("same-as-before" if req["x"] in seen_points else ("first" if not seen_points else "other")))
            if req["x"] != h["defaults"] and len(comps(h["in_sizes"], req["ins"])) < h["n"]:
                res.count("hist-request:strict-input-subset-at-non-default-point")
            if req["xidx"]:
                res.count("hist-request:x_indices")
            if op.get("wrong"):
                res.count("hist-request:wrong-analytic-jacobian")
            if op.get("given") is not None:
                left = [nm for nm, _ in h["in_sizes"] if nm not in op["given"]]
                if left:
                    res.count("hist-request:inputs-left-to-defaults" + (":no-input-data" if not op["given"] else ""))
                    sl = slices(h["in_sizes"])
                    away = [nm for nm in left
                            if any(p[sl[nm][0] : sl[nm][0] + sl[nm][1]] != h["defaults"][sl[nm][0] : sl[nm][0] + sl[nm][1]] for p in seen_points)]
                    if away:
                        res.count("hist-request:input-left-to-default-after-request-away-from-it")
                        if any(nm not in req["ins"] for nm in away):
                            res.count("hist-request:undifferentiated-input-left-to-default-after-request-away-from-it")
            if op["op"] == "dchk":
                res.count("hist-dchk:auto_set_step=" + ("True" if op.get("auto") else "False(explicit)" if op.get("explicit") else "default"))
                res.count("hist-dchk:linearization_mode=" + (op.get("lmode", "auto") if op.get("lmode", "auto") != "auto" or op.get("explicit") else "default"))
                if op.get("auto") and req["x"] != h["defaults"]:
                    res.count("hist-dchk:auto_set_step-away-from-default-inputs")
            seen_points.append(req["x"])
            prev = req
            unjudged = approx_cached_before(h, t)
            if unjudged:
                res.count("hist:check-where-an-approximated-jacobian-may-be-cached-not-judged")
            bad = hist_oracle(h, op, req, o, unjudged)
            for key, msg in bad:
                res.count("oracle-fail:" + key)
                if any(v.key == key for v in res.violations):
                    continue
                small = shrink_hist(h, key)
                fl = [f for f in hist_failures(small) if f[1] == key]
                res.violate("oracle", key, fl[0][2] if fl else msg,
                            {"hist": small, "failing_op": fl[0][0] if fl else t, "what": fl[0][2] if fl else msg,
                             "protocol_lines": hist_lines(small)[0]})
            ans, model_defaults = split_answer(answers[a0 + where[t]])
            msg = hist_compare(h, op, req, o, ans)
            if op.get("auto"):
                # the value of the "optimal" step is not modelled: oracle only (exact Jacobian accepted / wrong rejected)
                res.count("hist:auto-step-verdict-not-compared-with-model")
                msg = ""
            if model_defaults is not None:
                res.count("hist:defaults-after-request-compared-with-model")
                msg = msg or defaults_vs_model(h, o, model_defaults)
            if msg and op["op"] == "lin" and h.get("cache") != "none" and req["x"] in analytic_points and "jac" in o:
                # Discipline.check_jacobian linearized analytically at this point before: a cache that keeps every
                # execution serves that (exact) Jacobian again — error 0, inside every bound
                if served_analytic(h, req, o):
                    res.count("hist:linearize-served-by-cached-analytic-jacobian")
                    msg = ""
            if op["op"] == "dchk":
                analytic_points.append(req["x"])
            if not msg and (hi, t) in chk_pos and "verdict" in o:
                want = chk_answers[chk_pos[(hi, t)]]
                got = "1" if o["verdict"] else "0"
                res.count("hist:check-verdict-compared")
                if want != got:
                    msg = f"check_jacobian verdict: implementation {got}, model {want}"
            if msg:
                agree = False
                res.disagreements += 1
                if not bad and not any(v.kind == "oracle" for v in res.violations):
                    res.violate("correspondence", f"disc-history-model-vs-impl[{sch}]",
                                f"op {t} ({op['op']}) of a discipline history differs from the model: {msg}",
                                {"hist": h, "failing_op": t, "protocol_lines": all_lines[a0 : a0 + len(h["ops"]) + 1],
                                 "model": ans, "correspondence": "Driver/C16.lean new/setstep/req/dreq/chk"})
        if agree:
            res.traces_validated += 1


def replay_hist(hist) -> int:
    lines, where = hist_lines(hist)
    answers = common.run_lean_driver(PID, lines)
    for ln, a in zip(lines, answers):
        print("line:", ln)
        print("  model:", a[:300])
    obs = run_hist(hist)
    for op, o in zip(hist["ops"], obs):
        print("op:", json.dumps(op))
        print("  impl:", {k: ({a: {b: np.asarray(v2).tolist() for b, v2 in v1.items()} for a, v1 in v.items()} if k == "jac" else v) for k, v in o.items()})
    fl = hist_failures(hist)
    for t, k, m in fl:
        print(f"ORACLE FAILS at op {t}:", k, m)
    return 1 if fl else 0
