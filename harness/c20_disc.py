"""Harness-side helper objects of the C20 check (real module: picklable by reference, and
GEMSEO's docstring inheritance needs source access).

* module-level functions used as bodies of AutoPyDiscipline / ArrayBasedFunctionDiscipline /
  MDOFunction (pickle stores functions by qualified name, so they must live in an importable module);
* `AffineDisc`: a small differentiable discipline with integer coefficients (exact arithmetic);
* `Probe`: a bare `Serializable` whose exclusion set and shared-memory hooks are driven by a class-level
  specification: it is the vehicle of the line-by-line correspondence between
  `gemseo.core.serializable.Serializable` and the Lean model (Driver/C20.lean);
* observers with and without an unpicklable resource.
"""

from __future__ import annotations

import threading
from multiprocessing import Value
from pathlib import Path
from typing import Any
from typing import ClassVar

import numpy as np

from gemseo.core.base_execution_status_observer import BaseExecutionStatusObserver
from gemseo.core.discipline.discipline import Discipline
from gemseo.core.serializable import Serializable

# --------------------------------------------------------------------------- plain functions


def py_func(a: float = 1.0, b: float = 2.0) -> tuple[float, float]:
    """An AutoPyDiscipline body."""
    c = 2.0 * a + b
    d = a - 3.0 * b
    return c, d


def py_jac(a: float = 1.0, b: float = 2.0) -> np.ndarray:
    """Its Jacobian."""
    return np.array([[2.0, 1.0], [1.0, -3.0]])


def array_func(x: np.ndarray) -> np.ndarray:
    """An ArrayBasedFunctionDiscipline body: R^3 -> R^2."""
    return np.array([x[0] + 2.0 * x[1], x[1] * x[2] + x[0]])


def array_jac(x: np.ndarray) -> np.ndarray:
    """Its Jacobian."""
    return np.array([[1.0, 2.0, 0.0], [1.0, x[2], x[1]]])


def quad(x: np.ndarray) -> float:
    """An MDOFunction body."""
    return float(x[0] ** 2 + 3.0 * x[1] - x[0] * x[1])


def quad_jac(x: np.ndarray) -> np.ndarray:
    """Its gradient."""
    return np.array([2.0 * x[0] - x[1], 3.0 - x[0]])


def lin_cstr(x: np.ndarray) -> np.ndarray:
    """A vector constraint."""
    return np.array([x[0] + x[1] - 1.0, x[0] - 2.0 * x[1]])


def lin_cstr_jac(x: np.ndarray) -> np.ndarray:
    """Its Jacobian."""
    return np.array([[1.0, 1.0], [1.0, -2.0]])


# --------------------------------------------------------------------------- a small discipline


class AffineDisc(Discipline):
    """``out = A @ concat(inputs) + b + q * |x|^2`` with integer data (exact in floats)."""

    def __init__(
        self,
        name: str,
        inputs: dict[str, int],
        outputs: dict[str, int],
        seed: int = 0,
        quadratic: bool = True,
        scale: float = 1.0,
    ) -> None:
        super().__init__(name)
        self.in_sizes = dict(inputs)
        self.out_sizes = dict(outputs)
        n = sum(inputs.values())
        rng = np.random.RandomState(seed)
        self.A = {o: rng.randint(-2, 3, size=(m, n)).astype(float) * scale for o, m in outputs.items()}
        self.b = {o: rng.randint(-2, 3, size=m).astype(float) for o, m in outputs.items()}
        self.q = {o: (rng.randint(0, 2, size=m).astype(float) * scale if quadratic else np.zeros(m)) for o, m in outputs.items()}
        self.io.input_grammar.update_from_names(list(inputs))
        self.io.output_grammar.update_from_names(list(outputs))
        self.io.input_grammar.defaults = {k: np.ones(s) for k, s in inputs.items()}
        self.n_run = 0

    def _x(self, data) -> np.ndarray:
        return np.concatenate([np.asarray(data[k], dtype=float).ravel() for k in self.in_sizes])

    def _run(self, input_data):
        self.n_run += 1
        x = self._x(input_data)
        s2 = float(x @ x)
        return {o: self.A[o] @ x + self.b[o] + self.q[o] * s2 for o in self.out_sizes}

    def _compute_jacobian(self, input_names=(), output_names=()) -> None:
        x = self._x(self.io.data)
        jac: dict[str, dict[str, np.ndarray]] = {}
        for o in self.out_sizes:
            full = self.A[o] + 2.0 * np.outer(self.q[o], x)
            jac[o] = {}
            k = 0
            for i, s in self.in_sizes.items():
                jac[o][i] = np.array(full[:, k : k + s])
                k += s
        self.jac = jac


class RhsDisc(Discipline):
    """Right-hand side of ``ds/dt = -k s`` for ODEDiscipline."""

    def __init__(self) -> None:
        super().__init__("RhsDisc")
        self.io.input_grammar.update_from_names(["time", "s", "k"])
        self.io.output_grammar.update_from_names(["s_dot"])
        self.io.input_grammar.defaults = {"time": np.array([0.0]), "s": np.array([1.0]), "k": np.array([0.5])}

    def _run(self, input_data):
        return {"s_dot": -input_data["k"] * input_data["s"]}

    def _compute_jacobian(self, input_names=(), output_names=()) -> None:
        d = self.io.data
        self.jac = {"s_dot": {"time": np.zeros((1, 1)), "s": -np.atleast_2d(d["k"]), "k": -np.atleast_2d(d["s"])}}


# --------------------------------------------------------------------------- Serializable probe


class Probe(Serializable):
    """A bare Serializable driven by the class-level SPEC (set by the harness before each case).

    SPEC = {"excluded": [...], "before": [[name, kind, value]...], "after": [[...]]}
    kind: "S" -> a fresh ``Value('i', value)``, "P" -> plain int, "D" -> a Path.
    """

    SPEC: ClassVar[dict[str, Any]] = {"excluded": [], "before": [], "after": []}
    _ATTR_NOT_TO_SERIALIZE: ClassVar[set[str]] = set()

    @staticmethod
    def make(kind: str, value: Any) -> Any:
        if kind == "S":
            return Value("i", int(value))
        if kind == "D":
            return Path(str(value))
        if kind == "L":
            return threading.Lock()
        return int(value)

    def _init_shared_memory_attrs_before(self) -> None:
        for name, kind, value in type(self).SPEC["before"]:
            self.__dict__[name] = self.make(kind, value)

    def _init_shared_memory_attrs_after(self) -> None:
        for name, kind, value in type(self).SPEC["after"]:
            self.__dict__[name] = self.make(kind, value)


# --------------------------------------------------------------------------- observers


class PlainObserver(BaseExecutionStatusObserver):
    """A picklable observer counting the notifications."""

    def __init__(self) -> None:
        self.n = 0

    def update_status(self, execution_status) -> None:
        self.n += 1


class ResourceObserver(BaseExecutionStatusObserver):
    """An observer owning a resource that cannot be pickled (a thread lock), like a GUI or a monitor."""

    def __init__(self) -> None:
        self.lock = threading.Lock()
        self.n = 0

    def update_status(self, execution_status) -> None:
        with self.lock:
            self.n += 1
