"""C06 — every MDA algorithm converges to the multidisciplinary fixed point.

Implementation side: random contractive coupled systems (affine with dyadic data, and a few non-linear
contractions; one or several strongly connected components, weakly coupled chains, private self-couplings)
are solved by every MDA class of the factory — directly and through MDAChain, on plain disciplines and on
process disciplines (MDOChain / MDOParallelChain / sub-MDA given as one discipline) — with random
acceleration / relaxation / scaling / order / warm-start settings passed in every public form (keywords,
settings model, create_mda, inner settings as dictionary or Pydantic model) (real code, in-process).

Model side (Lean, Driver/C06.lean): the Jacobi / Gauss-Seidel / Newton iterations with the code's
relaxation, accelerations, stop test (all residual scalings, scale fixed at the first iteration ever run),
max_mda_iter and warm start are replayed in exact rational arithmetic on the affine systems; residual
history, iteration count and returned couplings are compared with the real code (rounded stream). The model
also computes WHICH variables a group resolves (`strongCouplingVars`, compared with the strong couplings the
real MDA reports) and replays MDAChain: which components get an inner MDA (`requiresMda`), the settings the
inner MDAs receive (`innerSettings`), their residual histories and the returned data (`chainExecute`).

Round 2: MDASequential over sub-MDA objects with their own tolerance / budget (replayed by `seqExecute`), inner
settings carrying coarse values of their own, and sessions of several MDA objects alive in one process
(harness/c06_session.py; settings of every object and of its inner MDAs compared with the model's `World` after every
operation, every judged object re-run alone).

Oracle (from the property text, independent of model and code): every harness discipline is re-executed
by an independent pure-Python twin on the returned data (residual <= bound, positive assertion) and the
returned couplings are compared with the exact `Fraction` solution of the affine system (or a
high-accuracy reference solution for the non-linear ones).
"""

from __future__ import annotations

import json
import math
import sys
from fractions import Fraction
from typing import Any

import numpy as np

from harness import common
from harness.common import F
from harness.common import Result
from harness.common import rat

PID = "C06"
sys.set_int_max_str_digits(0)  # the exact replay of an accelerated run produces very long rationals

TRUSTED_EXTRA = (
    "C06: harness disciplines (harness/c06_disc.py) are deterministic functions of their inputs; their twins in the oracle are written independently over Fraction/math",
    "C06: float arithmetic of the real MDA is compared with the exact-rational model up to a relative 2^-30 on residual histories and returned couplings (rounded stream)",
    "C06: SciPy root finders (MDAQuasiNewton), SciPy lstsq (Alternate2Delta, MinimumPolynomial) and the linear solvers of the Newton step are not modelled; for them only the oracle applies",
)

SOLVER_CLASSES = ("MDAJacobi", "MDAGaussSeidel", "MDANewtonRaphson")
ACCELS = ("NoTransformation", "Aitken", "Secant", "Alternate2Delta", "AlternateDeltaSquared", "MinimumPolynomial")
SCALINGS = (
    "no_scaling",
    "initial_residual_norm",
    "initial_subresidual_norm",
    "n_coupling_variables",
    "initial_residual_component",
    "scaled_initial_residual_component",
)

# --------------------------------------------------------------------------- exact twin of the system


def fr(s: Any) -> Fraction:
    return Fraction(s)


class System:
    """The coupled system of a case, independent of GEMSEO (exact for affine, float for non-linear)."""

    def __init__(self, case: dict[str, Any]) -> None:
        self.case = case
        self.sizes = {k: int(v) for k, v in case["vars"].items()}
        self.discs = case["discs"]
        self.out_owner = {}
        for k, d in enumerate(self.discs):
            for o in d["outs"]:
                self.out_owner[o] = k
        self.outputs = [o for d in self.discs for o in d["outs"]]
        self.all_inputs = sorted({i for d in self.discs for i in d["ins"]})
        # couplings = variables that are both an output and an input of some discipline
        self.couplings = sorted(o for o in self.outputs if o in self.all_inputs)
        self.ext_inputs = sorted(i for i in self.all_inputs if i not in self.out_owner)
        self.linear = all(d["kind"] == "lin" for d in self.discs)

    # ---- evaluation of one discipline (exact for lin, float otherwise)
    def eval_disc(self, k: int, data: dict[str, list], exact: bool) -> dict[str, list]:
        d = self.discs[k]
        res = {}
        for o, spec in d["outs"].items():
            v = [fr(c) if exact else float(fr(c)) for c in spec["c"]]
            for i, mat in spec["m"].items():
                xi = data[i]
                if d["kind"] == "lin":
                    ph = list(xi)
                elif d["kind"] == "rat":
                    ph = [t / (1 + t * t) for t in xi]
                else:
                    ph = [math.sin(t) for t in xi]
                for r, row in enumerate(mat):
                    for c, a in enumerate(row):
                        a = fr(a) if exact else float(fr(a))
                        if a != 0:
                            v[r] = v[r] + a * ph[c]
            res[o] = v
        return res

    def lipschitz_bound(self) -> Fraction:
        """max row sum of |coefficients| over the non-external inputs (sup-norm Lipschitz constant of G)."""
        k = Fraction(0)
        for d in self.discs:
            for spec in d["outs"].values():
                n = len(spec["c"])
                for r in range(n):
                    s = Fraction(0)
                    for i, mat in spec["m"].items():
                        if i in self.out_owner:
                            s += sum(abs(fr(a)) for a in mat[r])
                    k = max(k, s)
        return k

    def exact_solution(self, ext: dict[str, list[Fraction]]) -> dict[str, list[Fraction]]:
        """Exact solution of the affine system y = A y + b(ext) over Fraction (Gauss elimination)."""
        assert self.linear
        names = self.outputs
        off, n = {}, 0
        for o in names:
            off[o] = n
            n += self.sizes[o]
        a = [[Fraction(0)] * (n + 1) for _ in range(n)]
        for o in names:
            spec = self.discs[self.out_owner[o]]["outs"][o]
            for r in range(self.sizes[o]):
                row = a[off[o] + r]
                row[off[o] + r] += 1
                rhs = fr(spec["c"][r])
                for i, mat in spec["m"].items():
                    for c, co in enumerate(mat[r]):
                        co = fr(co)
                        if i in off:
                            row[off[i] + c] -= co
                        else:
                            rhs += co * ext[i][c]
                row[n] = rhs
        # Gauss-Jordan
        for col in range(n):
            p = next(r for r in range(col, n) if a[r][col] != 0)
            a[col], a[p] = a[p], a[col]
            inv = 1 / a[col][col]
            a[col] = [v * inv for v in a[col]]
            for r in range(n):
                if r != col and a[r][col] != 0:
                    f = a[r][col]
                    a[r] = [v - f * w for v, w in zip(a[r], a[col])]
        return {o: [a[off[o] + r][n] for r in range(self.sizes[o])] for o in names}

    def reference_solution(self, ext: dict[str, list[float]]) -> dict[str, list[float]]:
        """High-accuracy solution of a (non-linear) contractive system: 200 plain Jacobi sweeps in floats."""
        data = {k: [float(t) for t in v] for k, v in ext.items()}
        for o in self.outputs:
            data[o] = [0.0] * self.sizes[o]
        for _ in range(200):
            new = {}
            for k in range(len(self.discs)):
                new.update(self.eval_disc(k, data, exact=False))
            data.update(new)
        return {o: data[o] for o in self.outputs}


# --------------------------------------------------------------------------- case generation


def _coef_row(rng: common.Rng, n_cols: int, budget: Fraction, den: int) -> list[Fraction]:
    """Random dyadic row with sum |a| <= budget."""
    if n_cols == 0:
        return []
    units = int(budget * den)
    row = [0] * n_cols
    for _ in range(rng.randint(1, max(1, units))):
        row[rng.randrange(n_cols)] += 1
    # keep the total within budget, random signs
    tot = sum(row)
    while tot > units:
        j = rng.randrange(n_cols)
        if row[j] > 0:
            row[j] -= 1
            tot -= 1
    return [Fraction(rng.pick([-1, 1]) * v, den) for v in row]


def gen_graph(rng: common.Rng, n: int, shape: str) -> list[list[int]]:
    """preds[k] = disciplines whose outputs discipline k reads (k in preds[k]: self-coupled)."""
    preds: list[set[int]] = [set() for _ in range(n)]
    if shape == "strong":
        perm = list(range(n))
        rng.shuffle(perm)
        for a, b in zip(perm, perm[1:] + perm[:1]):
            if a != b:
                preds[b].add(a)
        for _ in range(rng.randint(0, n)):
            a, b = rng.randrange(n), rng.randrange(n)
            if a != b:
                preds[b].add(a)
        if n == 1:
            preds[0].add(0)
    else:  # "mixed" / "groups": several SCCs chained by weak couplings
        groups: list[list[int]] = []
        idx = list(range(n))
        rng.shuffle(idx)
        while idx:
            g = rng.pick([1, 1, 2, 2, 3])
            groups.append(idx[:g])
            idx = idx[g:]
        for g in groups:
            if len(g) > 1:
                for a, b in zip(g, g[1:] + g[:1]):
                    preds[b].add(a)
        for gi in range(1, len(groups)):
            src = rng.pick(groups[rng.randrange(gi)])
            preds[rng.pick(groups[gi])].add(src)
            if rng.chance(0.3):
                preds[rng.pick(groups[gi])].add(rng.pick(groups[rng.randrange(gi)]))
        if shape == "groups":
            # no weakly coupled discipline: a discipline alone in its component is self-coupled
            for g in groups:
                if len(g) == 1:
                    preds[g[0]].add(g[0])
    if rng.chance(0.4):
        preds[rng.randrange(n)].add(rng.randrange(n))  # possibly a self-coupling
    if rng.chance(0.25):
        k = rng.randrange(n)
        preds[k].add(k)
    return [sorted(p) for p in preds]


def _budget_row(rng: common.Rng, n_cols: int, budget: Fraction, den: int) -> list[Fraction]:
    """Random dyadic row with sum |a| <= budget (the denominator is refined until one unit fits)."""
    if n_cols == 0 or budget <= 0:
        return [Fraction(0)] * n_cols
    while int(budget * den) < 1:
        den *= 2
    return _coef_row(rng, n_cols, budget, den)


def gen_system(rng: common.Rng, shape: str | None = None, kind: str | None = None, private: bool | None = None) -> dict[str, Any]:
    n = rng.pick([2, 2, 3, 3, 4, 5])
    shape = shape or rng.pick(["strong", "strong", "strong", "mixed", "mixed", "groups"])
    kind = kind or rng.pick(["lin", "lin", "lin", "lin", "rat", "sin"])
    kbound = rng.pick([Fraction(1, 2), Fraction(1, 2), Fraction(1, 4), Fraction(1, 8)])
    den = rng.pick([8, 16, 32, 64])
    preds = gen_graph(rng, n, shape)
    sizes: dict[str, int] = {"x": rng.pick([1, 1, 2])}
    outs_of: list[list[str]] = []
    has_z = []
    for k in range(n):
        names = [f"y{k}"]
        sizes[f"y{k}"] = rng.pick([1, 1, 2, 3])
        if rng.chance(0.3):
            # a second output: read by the same disciplines as the first one, or by nobody
            names.append(f"z{k}")
            sizes[f"z{k}"] = rng.pick([1, 2])
        has_z.append(len(names) > 1)
        outs_of.append(names)
    z_read = {k: rng.chance(0.7) for k in range(n)}
    # private self-couplings: an output s_k of discipline k that only discipline k reads (a state the discipline
    # feeds back to itself), whatever the other couplings of the discipline are (member of a cycle, weakly coupled)
    private = rng.chance(0.35) if private is None else private
    priv: dict[int, str] = {}
    if private:
        for k in rng.subset(list(range(n)), 0.5) or [rng.randrange(n)]:
            priv[k] = f"s{k}"
            sizes[f"s{k}"] = rng.pick([1, 1, 2])
            outs_of[k].append(f"s{k}")
    # contraction rates: the rows of the shared couplings may contract much faster than the private recurrences
    fast_shared = bool(priv) and rng.chance(0.6)
    shared_rate = rng.pick([Fraction(1, 4), Fraction(1, 8), Fraction(1, 16)]) if fast_shared else Fraction(1)
    discs = []
    for k in range(n):
        ins = []
        for p in preds[k]:
            ins.append(f"y{p}")
            if has_z[p] and z_read[p] and not (p == k):
                ins.append(f"z{p}")
        if k in priv:
            ins.append(priv[k])
        if k == 0 or rng.chance(0.6) or not ins:
            ins.append("x")
        s_feeds = rng.chance(0.5)  # whether the private variable influences the other outputs of its discipline
        outs = {}
        for o in outs_of[k]:
            m = sizes[o]
            cpl = [i for i in ins if i != "x"]
            shared = [i for i in cpl if i != priv.get(k)]
            mats: dict[str, list[list[str]]] = {i: [] for i in ins}
            for _ in range(m):
                parts: dict[str, list[Fraction]] = {}
                if k in priv and o == priv[k]:
                    # slow private recurrence: most of the budget on the variable itself
                    own = kbound * rng.pick([Fraction(3, 4), Fraction(7, 8), Fraction(1)])
                    parts[o] = _budget_row(rng, sizes[o], own, den)
                    row = _budget_row(rng, sum(sizes[i] for i in shared), kbound - own, den)
                else:
                    budget = kbound * shared_rate
                    if k in priv:
                        own = budget / 4 if s_feeds else Fraction(0)
                        parts[priv[k]] = _budget_row(rng, sizes[priv[k]], own, den)
                        budget -= own
                    row = _budget_row(rng, sum(sizes[i] for i in shared), budget, den)
                pos = 0
                for i in shared:
                    parts[i] = row[pos : pos + sizes[i]]
                    pos += sizes[i]
                for i in cpl:
                    mats[i].append([rat(a) for a in parts[i]])
                if "x" in ins:
                    mats["x"].append([rat(rng.dyadic(-2, 2, 2)) for _ in range(sizes["x"])])
            outs[o] = {"c": [rat(rng.dyadic(-4, 4, 2)) for _ in range(m)], "m": mats}
        discs.append({"name": f"D{k}", "kind": kind, "ins": ins, "outs": outs})
    # a chain of weakly coupled post-processing disciplines (the last output is read by nobody)
    if shape == "mixed" and rng.chance(0.6):
        src = f"y{rng.randrange(n)}"
        for _ in range(rng.pick([1, 1, 2, 3])):
            k = len(discs)
            sizes[f"y{k}"] = rng.pick([1, 1, 2])
            rows = [[rat(a) for a in _budget_row(rng, sizes[src], kbound, den)] for _ in range(sizes[f"y{k}"])]
            discs.append({
                "name": f"D{k}",
                "kind": kind,
                "ins": [src],
                "outs": {f"y{k}": {"c": [rat(rng.dyadic(-2, 2, 2)) for _ in range(sizes[f"y{k}"])], "m": {src: rows}}},
            })
            src = f"y{k}"
    order = list(range(len(discs)))
    rng.shuffle(order)
    return {"vars": sizes, "discs": discs, "order": order, "shape": shape, "kbound": rat(kbound)}


def gen_mda(rng: common.Rng, system: dict[str, Any], cls: str | None = None) -> dict[str, Any]:
    """Random MDA class and settings (inside the property's quantifier)."""
    cls = cls or rng.pick([
        "MDAJacobi", "MDAJacobi", "MDAGaussSeidel", "MDAGaussSeidel", "MDANewtonRaphson",
        "MDAQuasiNewton", "MDAGSNewton", "MDASequential", "MDAChain", "MDAChain", "MDAChain",
    ])
    kb = Fraction(system["kbound"])
    m: dict[str, Any] = {
        "cls": cls,
        "tol": rat(Fraction(1, 2 ** rng.pick([10, 16, 20, 24, 30, 36]))),
        "max_iter": rng.pick([60, 100]),
        "scaling": rng.pick(SCALINGS),
        "warm": rng.chance(0.3),
        "accel": "NoTransformation",
        "omega": "1",
    }
    if rng.chance(0.5):
        m["accel"] = rng.pick(ACCELS)
    if rng.chance(0.5):
        # relaxation x <- w G(x_n) + (1-w) x_n keeps a contraction when K (w + |1-w|) ... we stay where
        # |1-w| + w K < 1, i.e. the relaxed map is still a contraction in the sup norm
        cands = [Fraction(1, 2), Fraction(7, 10), Fraction(9, 10), Fraction(11, 10), Fraction(6, 5), Fraction(3, 2)]
        cands = [w for w in cands if abs(1 - w) + w * kb <= Fraction(7, 8)]
        m["omega"] = rat(rng.pick(cands))
    if cls == "MDAChain":
        m["inner"] = rng.pick(["MDAJacobi", "MDAGaussSeidel", "MDANewtonRaphson", "MDAQuasiNewton", "MDAGSNewton"])
    if cls == "MDASequential":
        m["seq"] = [rng.pick(["MDAJacobi", "MDAGaussSeidel"]), rng.pick(["MDAGaussSeidel", "MDANewtonRaphson", "MDAJacobi"])]
        m["seq_first_iter"] = rng.pick([1, 2, 3, 5])
        if rng.chance(0.25):
            m["seq"].insert(1, rng.pick(["MDAJacobi", "MDAGaussSeidel"]))
        # the sub-MDA objects carry their OWN settings (an MDASequential cascades nothing): a starter may be limited by
        # its iteration budget, or by a tolerance looser than the one requested from the sequence (and reach it), or be
        # tighter; the last stage is at least as accurate as the sequence and has the budget to converge
        stages = []
        for _ in m["seq"][:-1]:
            mode = rng.pick(["loose", "loose", "loose", "budget", "loose+budget", "tighter"])
            if mode == "loose":
                stages.append({"loose": rat(Fraction(1, 2 ** rng.pick([2, 3, 4, 6, 8]))), "max_iter": 60})
            elif mode == "budget":
                stages.append({"div": 1, "max_iter": rng.pick([1, 2, 3, 5])})
            elif mode == "loose+budget":
                stages.append({"loose": rat(Fraction(1, 2 ** rng.pick([2, 4, 6]))), "max_iter": rng.pick([1, 2, 3, 5])})
            else:
                stages.append({"div": 4, "max_iter": 60})
        stages.append({"div": rng.pick([1, 1, 4]), "max_iter": 100})
        m["stages"] = stages
    if cls == "MDAQuasiNewton" or m.get("inner") == "MDAQuasiNewton":
        m["method"] = rng.pick(["hybr", "hybr", "broyden1", "broyden2", "lm", "krylov", "df-sane"])
        m["use_gradient"] = rng.chance(0.5)
    if cls == "MDAGSNewton" or m.get("inner") == "MDAGSNewton":
        m["gs_iter"] = rng.pick([1, 2, 3])
    # less usual ways of configuring / running the same algorithms
    extra: dict[str, Any] = {}
    if cls == "MDAJacobi" and rng.chance(0.15):
        extra["n_processes"] = 2  # threads
    if cls == "MDAChain" and rng.chance(0.2):
        extra["mdachain_parallelize_tasks"] = True
    if cls == "MDAChain" and rng.chance(0.2):
        extra["initialize_defaults"] = True
    if m["warm"] and rng.chance(0.3):
        extra["cache"] = "MemoryFullCache"
    if cls in SOLVER_CLASSES and rng.chance(0.2):
        extra["set_after"] = True  # acceleration / relaxation set through the attributes after construction
    if cls in ("MDAChain", "MDAGSNewton") and rng.chance(0.2):
        extra["tol_after"] = True  # tolerance assigned to the settings after construction (cascaded)
    # the other public ways of passing the same settings
    if rng.chance(0.25):
        extra["form"] = "model"  # settings_model=<Class>.Settings(...) instead of keyword arguments
    if cls == "MDAChain" and rng.chance(0.4):
        extra["inner_form"] = "model"  # inner_mda_settings=<InnerClass>.Settings(...) instead of a dictionary
    if cls == "MDAGSNewton" and rng.chance(0.4):
        extra["inner_form"] = "model"  # gauss_seidel_settings / newton_settings as Pydantic models
    if cls in ("MDAChain", "MDAGSNewton") and rng.chance(0.3):
        # the inner settings carry their own (coarse) tolerance / iteration budget: the composed MDA's prevail
        given: dict[str, Any] = {}
        if rng.chance(0.7):
            given["tolerance"] = rat(Fraction(1, 2 ** rng.pick([1, 3, 6])))
        if rng.chance(0.7) or not given:
            given["max_mda_iter"] = rng.pick([1, 2, 3])
        extra["inner_given"] = given
    if rng.chance(0.15) and cls != "MDASequential":
        extra["api"] = "create_mda"  # gemseo.create_mda instead of MDAFactory().create
    if extra:
        m["extra"] = extra
    return m


DIRECT_ON_WEAK = ("MDAJacobi", "MDAGaussSeidel", "MDAQuasiNewton", "MDASequential")
"""Elementary / sequential MDAs that accept weakly coupled disciplines (see notes/C06.md, "direct use");
MDANewtonRaphson (hence MDAGSNewton and any sequence containing it) rejects them with a documented ValueError."""


def gen_groups(rng: common.Rng, case: dict[str, Any]) -> list[dict[str, Any]]:
    """Process disciplines: some disciplines of the case are wrapped in an MDOChain / MDOParallelChain / MDA
    that is given to the MDA of the case as ONE discipline (same equations, same solution)."""
    m = case["mda"]
    n = len(case["discs"])
    idx = list(range(n))
    rng.shuffle(idx)
    size = rng.pick([2, 2, 3, n])
    members = idx[: min(size, n)]
    solver_inner = m.get("inner") in ("MDAJacobi", "MDAGaussSeidel") or m["cls"] in ("MDAJacobi", "MDAGaussSeidel")
    kinds = ["MDOChain", "MDOChain", "MDOChain", "MDOParallelChain"]
    if solver_inner and Fraction(m["tol"]) >= Fraction(1, 2**30):
        kinds.append(rng.pick(["MDAJacobi", "MDAGaussSeidel"]))
    groups = [{"kind": rng.pick(kinds), "members": members}]
    rest = idx[len(members):]
    if len(rest) >= 2 and rng.chance(0.3):
        groups.append({"kind": rng.pick(["MDOChain", "MDOParallelChain"]), "members": rest[:2]})
    return groups


def gen_case(
    rng: common.Rng,
    shape: str | None = None,
    kind: str | None = None,
    cls: str | None = None,
    private: bool | None = None,
    grouped: bool | None = None,
) -> dict[str, Any]:
    system = gen_system(rng, shape, kind, private)
    sizes = system["vars"]
    case = dict(system)
    case["mda"] = gen_mda(rng, system, cls)
    m = case["mda"]
    direct = m["cls"] in DIRECT_ON_WEAK and not (m["cls"] == "MDASequential" and "MDANewtonRaphson" in m["seq"])
    if system["shape"] != "strong" and not has_weak_disciplines(case):
        direct = True  # several strongly coupled groups, no weakly coupled discipline: every class accepts them
    if system["shape"] != "strong" and m["cls"] != "MDAChain" and not (direct and (m["cls"] == "MDAJacobi" or rng.chance(0.6))):
        # MDANewtonRaphson (hence MDAGSNewton, sequences with a Newton stage) rejects weakly coupled disciplines
        # with a documented ValueError ("use MDAChain"): these are solved through MDAChain, and so is a share of
        # the other classes. MDAJacobi / MDAGaussSeidel / MDAQuasiNewton / Jacobi-GS sequences are ALSO used
        # directly on systems with several strongly connected components (inside the property's quantifier).
        inner = {"MDASequential": "MDAGaussSeidel"}.get(m["cls"], m["cls"])
        for k in ("seq", "seq_first_iter", "stages"):
            m.pop(k, None)
        m["inner"] = inner
        m["cls"] = "MDAChain"
    m = case["mda"]
    if (m["cls"] == "MDAChain" or (system["shape"] == "strong" and m["cls"] in ("MDAJacobi", "MDAGaussSeidel"))) and rng.chance(
        0.3 if grouped is None else float(grouped)
    ):
        case["groups"] = gen_groups(rng, case)
    composed = m["cls"] in ("MDAGSNewton", "MDASequential") or m.get("inner") == "MDAGSNewton"
    if composed and m["scaling"].startswith(("initial", "scaled")) and Fraction(m["tol"]) < Fraction(1, 2**16):
        # the second MDA of a sequence starts next to the solution: its *initial* residual is tiny and a
        # tolerance relative to it is below the resolution of floats (not a property of the algorithms)
        m["tol"] = rat(Fraction(1, 2 ** rng.pick([10, 16])))
    if m["scaling"].startswith(("initial", "scaled")) and Fraction(m["tol"]) < Fraction(1, 2**30):
        m["tol"] = rat(Fraction(1, 2**30))
    n_runs = 2 if case["mda"]["warm"] or rng.chance(0.2) else 1
    runs = []
    seen_x: set[tuple[str, ...]] = set()
    for _ in range(n_runs):
        while True:
            xv = tuple(rat(rng.dyadic(-4, 4, 2)) for _ in range(sizes["x"]))
            if xv not in seen_x:
                break
        seen_x.add(xv)
        run: dict[str, Any] = {"x": list(xv)}
        if rng.chance(0.5):
            # explicit starting values of the couplings
            run["y0"] = {
                v: [rat(rng.dyadic(-8, 8, 1)) for _ in range(s)] for v, s in sizes.items() if v != "x" and rng.chance(0.7)
            }
        runs.append(run)
    case["runs"] = runs
    return case


# --------------------------------------------------------------------------- implementation side


def build_disciplines(case: dict[str, Any]):
    from harness.c06_disc import CplDisc

    sizes = case["vars"]
    discs = []
    for d in case["discs"]:
        outs = {
            o: ([float(Fraction(c)) for c in spec["c"]], {i: [[float(Fraction(a)) for a in row] for row in mat] for i, mat in spec["m"].items()})
            for o, spec in d["outs"].items()
        }
        discs.append(CplDisc(d["name"], {i: sizes[i] for i in d["ins"]}, outs, kind=d["kind"]))
    return discs


def stage_tolerance(m: dict[str, Any], st: dict[str, Any]) -> Fraction:
    """The tolerance of a sub-MDA of an MDASequential: an absolute loose one, or the one of the sequence / `div`."""
    if "loose" in st:
        return Fraction(st["loose"])
    return Fraction(m["tol"]) / int(st.get("div", 1))


def inner_given(m: dict[str, Any]) -> dict[str, Any]:
    """BaseMDASettings fields explicitly given for the inner MDAs of a composition (the composed MDA's prevail)."""
    g = m.get("extra", {}).get("inner_given") or {}
    out: dict[str, Any] = {}
    if "tolerance" in g:
        out["tolerance"] = float(Fraction(g["tolerance"]))
    if "max_mda_iter" in g:
        out["max_mda_iter"] = int(g["max_mda_iter"])
    return out


def _solver_settings(m: dict[str, Any]) -> dict[str, Any]:
    return {"acceleration_method": m["accel"], "over_relaxation_factor": float(Fraction(m["omega"]))}


def build_listed(case: dict[str, Any], discs: list) -> list:
    """The disciplines handed to the MDA, in the listed order; the members of a group are replaced (at the place
    of the first listed member) by ONE process discipline: MDOChain / MDOParallelChain / a converged sub-MDA."""
    groups = case.get("groups") or []
    if not groups:
        return [discs[k] for k in case["order"]]
    from gemseo.core.chains.chain import MDOChain
    from gemseo.core.chains.parallel_chain import MDOParallelChain
    from gemseo.mda.factory import MDAFactory

    m = case["mda"]
    gid = {k: gi for gi, g in enumerate(groups) for k in g["members"]}
    made: dict[int, Any] = {}
    listed = []
    for k in case["order"]:
        if k not in gid:
            listed.append(discs[k])
            continue
        gi = gid[k]
        if gi in made:
            continue
        g = groups[gi]
        members = [discs[i] for i in g["members"]]
        if g["kind"] == "MDOChain":
            made[gi] = MDOChain(members, name=f"G{gi}")
        elif g["kind"] == "MDOParallelChain":
            made[gi] = MDOParallelChain(members, name=f"G{gi}", use_threading=True, n_processes=1)
        else:
            # an MDA used as a discipline: it solves its own couplings to a tolerance 64 times tighter
            sub = MDAFactory().create(
                g["kind"], members, name=f"G{gi}", tolerance=float(Fraction(m["tol"]) / 64), max_mda_iter=200
            )
            sub.scaling = m["scaling"]
            made[gi] = sub
        listed.append(made[gi])
    return listed


def build_mda(case: dict[str, Any]):
    """Instantiate the disciplines (in the listed order) and the MDA of the case."""
    from gemseo.mda.factory import MDAFactory

    m = case["mda"]
    discs = build_disciplines(case)
    listed = build_listed(case, discs)
    cls = m["cls"]
    base = {"tolerance": float(Fraction(m["tol"])), "max_mda_iter": int(m["max_iter"]), "warm_start": bool(m["warm"])}
    fac = MDAFactory()
    extra = m.get("extra", {})
    if extra.get("n_processes"):
        base.update({"n_processes": 2, "use_threading": True})
    for k in ("mdachain_parallelize_tasks", "initialize_defaults"):
        if extra.get(k):
            base[k] = True
    final_tol = base["tolerance"]
    if extra.get("tol_after"):
        base["tolerance"] = 0.5
    solver_settings = _solver_settings(m)
    if extra.get("set_after"):
        solver_settings = {}

    def create(name, disciplines, ctor=None, **settings):
        """One of the public ways of building an MDA: keyword settings or a settings model, factory or API."""
        ctor = ctor or {}
        if extra.get("form") == "model":
            settings = {"settings_model": fac.get_class(name).Settings(**settings)}
        if extra.get("api") == "create_mda":
            from gemseo import create_mda

            return create_mda(name, disciplines, **ctor, **settings)
        return fac.create(name, disciplines, **ctor, **settings)

    def inner_model(name, settings):
        """The settings dedicated to an inner MDA: a dictionary, or the Pydantic model of the inner class."""
        return fac.get_class(name).Settings(**settings) if extra.get("inner_form") == "model" else settings

    def qn(settings):
        settings.update({"method": m["method"], "use_gradient": bool(m["use_gradient"])})
        return settings

    if cls in SOLVER_CLASSES:
        mda = create(cls, listed, **base, **solver_settings)
        if extra.get("set_after"):
            mda.acceleration_method = m["accel"]
            mda.over_relaxation_factor = float(Fraction(m["omega"]))
    elif cls == "MDAQuasiNewton":
        mda = create(cls, listed, **qn(dict(base)))
    elif cls == "MDAGSNewton":
        mda = create(
            cls,
            listed,
            ctor={
                "gauss_seidel_settings": inner_model("MDAGaussSeidel", {**_solver_settings(m), **inner_given(m)}),
                "newton_settings": inner_model("MDANewtonRaphson", {**_solver_settings(m), **inner_given(m)}),
            },
            **base,
        )
        # the first MDA of the sequence only performs a few sweeps
        mda.mda_sequence[0].settings.max_mda_iter = int(m["gs_iter"])
    elif cls == "MDASequential":
        if m.get("stages"):
            # sub-MDA objects built with their own tolerance / max_mda_iter
            sequence = [
                fac.create(
                    name,
                    listed,
                    **{**base, "tolerance": float(stage_tolerance(m, st)), "max_mda_iter": int(st["max_iter"])},
                    **_solver_settings(m),
                )
                for name, st in zip(m["seq"], m["stages"])
            ]
        else:
            first = fac.create(m["seq"][0], listed, **{**base, "max_mda_iter": int(m["seq_first_iter"])}, **_solver_settings(m))
            second = fac.create(m["seq"][1], listed, **base, **_solver_settings(m))
            sequence = [first, second]
        mda = create(cls, listed, ctor={"mda_sequence": sequence}, **base)
    elif cls == "MDAChain":
        inner = m["inner"]
        if inner in SOLVER_CLASSES:
            inner_settings = _solver_settings(m)
        elif inner == "MDAQuasiNewton":
            inner_settings = qn({})
        else:
            inner_settings = {}
        inner_settings = {**inner_settings, **inner_given(m)}
        mda = create(cls, listed, **base, inner_mda_name=inner, inner_mda_settings=inner_model(inner, inner_settings))
    else:
        raise ValueError(cls)
    mda.scaling = m["scaling"]
    if extra.get("tol_after"):
        mda.settings.tolerance = final_tol
    if extra.get("cache"):
        mda.set_cache(extra["cache"])
    return mda, discs


def exec_once(mda, case: dict[str, Any], run: dict[str, Any], inner_seen: dict[int, int], first: bool = True) -> dict[str, Any]:
    """One `mda.execute` on the inputs of `run`: the observable behaviour."""
    sizes = case["vars"]
    inputs = {"x": np.array([float(Fraction(t)) for t in run["x"]])}
    for v, vals in run.get("y0", {}).items():
        if v in mda.io.input_grammar:
            inputs[v] = np.array([float(Fraction(t)) for t in vals])
    r: dict[str, Any] = {}
    n_hist = len(getattr(mda, "residual_history", []))
    try:
        out = mda.execute(inputs)
        r["out"] = {k: [float(t) for t in np.atleast_1d(out[k])] for k in sizes if k in out}
        nr = out.get(mda.NORMALIZED_RESIDUAL_NORM)
        r["normed"] = None if nr is None else float(nr[-1])
        r["history"] = [float(t) for t in mda.residual_history[n_hist:]]
        r["reported_normed"] = float(mda.normed_residual)
        r["inner_hist"] = []
        for j, im in enumerate(getattr(mda, "inner_mdas", None) or []):
            h = [float(t) for t in im.residual_history]
            r["inner_hist"].append(h[inner_seen.get(j, 0):] if len(h) >= inner_seen.get(j, 0) else h)
            inner_seen[j] = len(h)
        if first and getattr(mda, "mda_sequence", None):
            # the sub-MDAs of a sequence reset their history at each run: after the FIRST execution of the sequence
            # the history of a stage is what it did during that execution (empty: not executed)
            r["stage_hist"] = [[float(t) for t in im.residual_history] for im in mda.mda_sequence]
    except Exception as e:  # noqa: BLE001
        r["exc"] = common.exc_class(e) + ": " + repr(e)[:200]
        r["tb"] = common.short_tb(e)
    return r


def settings_view(mda) -> dict[str, Any]:
    """The settings an MDA object and its inner MDAs / stages hold (public `settings` models)."""
    inner = list(getattr(mda, "inner_mdas", None) or getattr(mda, "mda_sequence", None) or [])
    return {
        "tolerance": float(mda.settings.tolerance),
        "max_mda_iter": int(mda.settings.max_mda_iter),
        "subs": [[float(im.settings.tolerance), int(im.settings.max_mda_iter)] for im in inner],
    }


def run_impl(case: dict[str, Any]) -> dict[str, Any]:
    """Run the real MDA on every run of the case; return the observable behaviour."""
    obs: dict[str, Any] = {"runs": []}
    try:
        mda, discs = build_mda(case)
    except Exception as e:  # noqa: BLE001
        obs["build_exc"] = common.exc_class(e) + ": " + repr(e)[:200]
        return obs
    inner_seen: dict[int, int] = {}
    for ridx, run in enumerate(case["runs"]):
        obs["runs"].append(exec_once(mda, case, run, inner_seen, first=ridx == 0))
    obs.update(describe(mda))
    return obs


def describe(mda) -> dict[str, Any]:
    """What the MDA says it solves (public attributes): the strong couplings, and the inner MDAs of a composition."""
    obs: dict[str, Any] = {"tolerance": float(mda.settings.tolerance)}
    try:
        obs["strong_couplings"] = sorted(mda.coupling_structure.strong_couplings)
        inner = list(getattr(mda, "inner_mdas", None) or getattr(mda, "mda_sequence", None) or [])
        obs["inner"] = [
            {
                "cls": type(im).__name__,
                "discs": [d.name for d in im.disciplines],
                "tolerance": float(im.settings.tolerance),
                "max_mda_iter": int(im.settings.max_mda_iter),
                "warm_start": bool(im.settings.warm_start),
                "iterations": len(im.residual_history),
                "strong_couplings": sorted(im.coupling_structure.strong_couplings),
            }
            for im in inner
        ]
    except Exception as e:  # noqa: BLE001
        obs["inner_exc"] = common.exc_class(e) + ": " + repr(e)[:200]
    return obs


# --------------------------------------------------------------------------- oracle (property text)


def _num(v) -> Fraction | None:
    try:
        return F(v)
    except (ValueError, TypeError, OverflowError):
        return None


def effective_transform(case: dict[str, Any]) -> tuple[str, str]:
    """(acceleration, relaxation factor) actually applied by the MDA of the case."""
    m = case["mda"]
    cls = m["cls"]
    applied = cls in SOLVER_CLASSES or cls in ("MDAGSNewton", "MDASequential") or (
        cls == "MDAChain" and m.get("inner") in SOLVER_CLASSES
    )
    return (m["accel"], m["omega"]) if applied else ("NoTransformation", "1")


def condensed_graph(case: dict[str, Any]) -> tuple[list[list[int]], list[set[int]]]:
    """Top-level items (lists of discipline indices: a group is one item) and, per item, the items it reads from
    (itself included when it reads one of its own outputs: as a process discipline, an input of the group that
    is also one of its outputs; for MDOChain an output produced before it is read is not an input)."""
    groups = case.get("groups") or []
    gid = {k: gi for gi, g in enumerate(groups) for k in g["members"]}
    items: list[list[int]] = []
    seen: set[int] = set()
    kinds: list[str] = []
    for k in case["order"]:
        if k in gid:
            if gid[k] in seen:
                continue
            seen.add(gid[k])
            items.append(list(groups[gid[k]]["members"]))
            kinds.append(groups[gid[k]]["kind"])
        else:
            items.append([k])
            kinds.append("disc")
    discs = case["discs"]
    owner = {o: i for i, it in enumerate(items) for k in it for o in discs[k]["outs"]}
    reads: list[set[int]] = []
    for it, kind in zip(items, kinds):
        produced: set[str] = set()
        ins: set[str] = set()
        for k in it:
            for v in discs[k]["ins"]:
                if kind == "MDOChain" and v in produced:
                    continue
                ins.add(v)
            produced.update(discs[k]["outs"])
        reads.append({owner[v] for v in ins if v in owner})
    return items, reads


def has_weak_disciplines(case: dict[str, Any]) -> bool:
    """Whether some top-level discipline is alone in its strongly connected component and not self-coupled."""
    items, reads = condensed_graph(case)
    n = len(items)
    reach = [set(r) for r in reads]
    changed = True
    while changed:
        changed = False
        for i in range(n):
            new = set().union(*[reach[j] for j in reach[i]]) if reach[i] else set()
            if not new <= reach[i]:
                reach[i] |= new
                changed = True
    return any(i not in reach[i] for i in range(n))


def case_class(case: dict[str, Any]) -> str:
    """Stable classification of a case (prefix of the violation keys)."""
    m = case["mda"]
    cls = m["cls"]
    accel, omega = effective_transform(case)
    if accel != "NoTransformation" and Fraction(omega) != 1:
        # an acceleration fed by GEMSEO's two-step over-relaxation: classified by the acceleration only
        return f"relaxed-acceleration:{accel}"
    if cls != "MDAChain" and cls != "MDAJacobi" and case.get("shape") != "strong":
        # an elementary MDA used directly on several strongly connected components
        suffix = f"/{m['method']}" if cls == "MDAQuasiNewton" else ""
        if has_weak_disciplines(case):
            return f"elementary-mda-on-weak-couplings:{cls}{suffix}"
        if len(scc_sequence(case)) > 1 and not case.get("groups"):
            return f"elementary-mda-on-several-groups:{cls}{suffix}"
    if cls == "MDAChain":
        cls += "/" + m["inner"]
    if cls.endswith("MDAQuasiNewton"):
        return f"{cls}:{m['method']}"
    if cls == "MDASequential":
        cls += "/" + "+".join(m["seq"])
    accel, omega = effective_transform(case)
    if accel != "NoTransformation" and Fraction(omega) != 1:
        # an acceleration fed by GEMSEO's two-step over-relaxation: classified by the acceleration only
        return f"relaxed-acceleration:{accel}"
    relax = "relax" if Fraction(omega) != 1 else "norelax"
    return f"{cls}:{accel}:{relax}"


def sqrt_up(q: Fraction) -> Fraction:
    """A rational upper bound of sqrt(q), tight to 2^-40 relative."""
    if q <= 0:
        return Fraction(0)
    sh = 2 * max(0, 64 - (q.numerator.bit_length() - q.denominator.bit_length()) // 2)
    v = math.isqrt((q.numerator << sh) // q.denominator) + 1
    return Fraction(v, 2 ** (sh // 2))


def documented_scale(case: dict[str, Any], sysm: System, run: dict[str, Any]) -> Fraction:
    """Upper bound of |R_k|_inf / tol implied by the documented stop criterion `ResidualScaling` of an
    elementary solver, from the first residual R_0 it computes (documented algorithms: Jacobi / Newton evaluate
    all the disciplines at the starting point; Gauss-Seidel first executes the disciplines once in the listed
    order, R_0 is the change of the couplings during the next sweep). Exact (Fraction) for affine systems."""
    sizes = sysm.sizes
    exact = sysm.linear
    conv = (lambda t: Fraction(t)) if exact else (lambda t: float(Fraction(t)))
    data: dict[str, list] = {"x": [conv(t) for t in run["x"]]}
    for o in sysm.outputs:
        y0 = run.get("y0", {}).get(o)
        data[o] = [conv(t) for t in y0] if y0 is not None else [conv(0)] * sizes[o]

    def jacobi(d):
        new = dict(d)
        for k in range(len(sysm.discs)):
            new.update(sysm.eval_disc(k, d, exact))
        return new

    def seidel(d):
        new = dict(d)
        for k in case["order"]:
            new.update(sysm.eval_disc(k, new, exact))
        return new

    if case["mda"]["cls"] == "MDAGaussSeidel":
        before = seidel(data)
        after = seidel(before)
    else:
        before, after = data, jacobi(data)
    r0 = {o: [F(a) - F(b) for a, b in zip(after[o], before[o])] for o in sysm.couplings}
    flat = [v for o in sysm.couplings for v in r0[o]]
    n = len(flat)
    nzf = lambda t: t if t != 0 else Fraction(1)  # noqa: E731
    sc = case["mda"]["scaling"]
    if sc == "no_scaling":
        return Fraction(1)
    if sc == "initial_residual_norm":
        return sqrt_up(nzf(sum(v * v for v in flat)))
    if sc == "initial_subresidual_norm":
        return max(sqrt_up(nzf(sum(v * v for v in r0[o]))) for o in sysm.couplings)
    if sc == "n_coupling_variables":
        return sqrt_up(Fraction(n))
    if sc == "initial_residual_component":
        return max(abs(nzf(v)) for v in flat)
    if sc == "scaled_initial_residual_component":
        return sqrt_up(Fraction(n)) * max(abs(nzf(v)) for v in flat)
    raise ValueError(sc)


def oracle(case: dict[str, Any], obs: dict[str, Any], tols: list[Fraction] | None = None) -> list[tuple[str, str]]:
    """Clauses of the property violated by the observed behaviour: list of (key, message).

    `tols`: the tolerance requested from the MDA object at each execution, when it is assigned between executions
    (default: the tolerance of the case)."""
    bad: list[tuple[str, str]] = []
    kc = case_class(case)
    if "build_exc" in obs:
        return [(f"{kc}:build-raises", f"the MDA cannot be built on a well-posed system: {obs['build_exc']}")]
    sysm = System(case)
    sizes = sysm.sizes
    tol = Fraction(case["mda"]["tol"])
    kb = sysm.lipschitz_bound()
    n_c = sum(sizes[o] for o in sysm.outputs)
    dmax = Fraction(0)
    tight: Fraction | None = None
    prev_out: dict[str, list[Fraction]] | None = None
    for ridx, (run, r) in enumerate(zip(case["runs"], obs["runs"])):
        tag = f"run{ridx}"
        if tols is not None:
            tol = tols[ridx]
        if "exc" in r:
            bad.append((f"{kc}:raises", f"{tag}: execute raised {r['exc']}"))
            prev_out = None
            continue
        if "broyden" in kc and r.get("reported_normed") is not None and not (r["reported_normed"] <= float(tol)):
            # SciPy's Broyden iterations are not guaranteed to converge; GEMSEO reports the failure
            # (normed residual above the tolerance + warning): nothing is claimed about the returned data
            obs.setdefault("not_judged", []).append(tag)
            prev_out = None
            continue
        ext = {"x": [Fraction(t) for t in run["x"]]}
        if sysm.linear:
            sol = sysm.exact_solution(ext)
        else:
            sol = {k: [F(t) for t in v] for k, v in sysm.reference_solution({"x": [float(t) for t in ext["x"]]}).items()}
        # starting points the algorithm may have used: zero defaults, explicit values, previous solution
        starts = [{o: [Fraction(0)] * sizes[o] for o in sysm.outputs}]
        if run.get("y0"):
            s = {o: [Fraction(0)] * sizes[o] for o in sysm.outputs}
            s.update({k: [Fraction(t) for t in v] for k, v in run["y0"].items()})
            starts.append(s)
        if prev_out is not None:
            starts.append(prev_out)
        for s in starts:
            for o in sysm.outputs:
                for a, b in zip(s[o], sol[o]):
                    dmax = max(dmax, abs(a - b))
        # generous upper bound of every residual scale of the code (see notes/C06.md)
        scale = Fraction(math.isqrt(n_c) + 1) * max(Fraction(1), (1 + kb) * dmax)
        bound = tol * scale
        sol_bound = 2 * bound
        if tight is None and tols is None and ridx == 0 and case["mda"]["cls"] in SOLVER_CLASSES and not case.get("groups"):
            tight = tol * documented_scale(case, sysm, run)
        if tight is not None:
            # elementary solvers: the documented scaling of the first residual ever computed is known exactly;
            # the returned data are G(y) with |G(y) - y| <= tight, hence (K-Lipschitz disciplines):
            bound = kb * tight * (1 + Fraction(1, 2**20))
            sol_bound = kb / (1 - kb) * tight * (1 + Fraction(1, 2**20))
        out = r["out"]
        vals: dict[str, list[Fraction]] = {}
        missing = False
        for o in sysm.outputs:
            vs = [_num(t) for t in out.get(o, [])]
            if len(vs) != sizes[o] or any(v is None for v in vs):
                missing = True
            else:
                vals[o] = vs
        if missing:
            bad.append((f"{kc}:not-finite", f"{tag}: returned couplings are missing or not finite: { {o: out.get(o) for o in sysm.outputs} }"))
            prev_out = None
            continue
        ymax = max([abs(v) for vs in vals.values() for v in vs] + [Fraction(1)])
        slack = Fraction(1, 10**13) * ymax
        # clause 1: re-executing any discipline on the returned data reproduces the returned outputs
        data = dict(vals)
        data.update(ext)
        worst, where = Fraction(0), ""
        for k, d in enumerate(sysm.discs):
            if sysm.linear:
                res = sysm.eval_disc(k, data, exact=True)
            else:
                res = {o: [F(t) for t in v] for o, v in sysm.eval_disc(k, {i: [float(t) for t in v] for i, v in data.items()}, exact=False).items()}
            for o, v in res.items():
                for a, b in zip(v, vals[o]):
                    if abs(a - b) > worst:
                        worst, where = abs(a - b), f"{d['name']}.{o}"
        if not (worst <= bound + slack):
            bad.append((f"{kc}:residual", f"{tag}: re-executing {where} on the returned data changes it by {float(worst):.3e} > tol*scale = {float(bound):.3e}"))
        # clause 2: agreement with the exact solution: K/(1-K) <= 1 for K <= 1/2; factor 2 covers 1/(1-K)
        dist = max(abs(a - b) for o in sysm.outputs for a, b in zip(vals[o], sol[o]))
        ref_slack = slack if sysm.linear else slack + Fraction(1, 10**12)
        if not (dist <= sol_bound + ref_slack):
            bad.append((f"{kc}:solution", f"{tag}: returned couplings are at distance {float(dist):.3e} from the exact solution > K/(1-K)*tol*scale = {float(sol_bound):.3e}"))
        prev_out = vals
    return bad


# --------------------------------------------------------------------------- model side (Lean driver)

ACCEL_TOKEN = {"NoTransformation": "none", "Aitken": "aitken", "Secant": "secant", "AlternateDeltaSquared": "adsq"}
ALGO_TOKEN = {"MDAJacobi": "j", "MDAGaussSeidel": "g", "MDANewtonRaphson": "n"}
ACCEL_CAP = 6  # replay budget for the accelerated runs (exact rationals triple in size at every Aitken step)


def replayable(case: dict[str, Any]) -> bool:
    """Cases the Lean model replays: affine systems, elementary solver (or MDAChain of elementary solvers),
    rational acceleration formulas, plain disciplines."""
    m = case["mda"]
    if any(d["kind"] != "lin" for d in case["discs"]):
        return False
    if case.get("groups"):
        return False
    if m["cls"] == "MDAChain":
        extra = m.get("extra", {})
        return m.get("inner") in ALGO_TOKEN and m["accel"] == "NoTransformation" and not extra.get("initialize_defaults")
    if m["cls"] == "MDASequential":
        # a sequence of elementary sub-MDAs with their own settings, on one strongly connected component
        return bool(m.get("stages")) and all(c in ALGO_TOKEN for c in m["seq"]) and m["accel"] == "NoTransformation" and case["shape"] == "strong"
    if m["cls"] not in ALGO_TOKEN or m["accel"] not in ACCEL_TOKEN:
        return False
    return m["cls"] == "MDAJacobi" or case["shape"] == "strong"


def _layout(sysm: System) -> tuple[list[str], dict[str, int], int]:
    names = sorted(sysm.outputs)
    off, n = {}, 0
    for o in names:
        off[o] = n
        n += sysm.sizes[o]
    return names, off, n


def _io_line(sysm: System, members: list[int]) -> tuple[str, list[str]]:
    """The `io` line of a group of disciplines (variables numbered by sorted name) and the variable names."""
    _, off, _ = _layout(sysm)
    allv = sorted(sysm.sizes)
    num = {v: i for i, v in enumerate(allv)}
    comps = ["" if v not in off else ",".join(str(off[v] + r) for r in range(sysm.sizes[v])) for v in allv]
    # an empty component list is written "-" (not a number: parsed as the empty list by the driver? no: use a
    # variable without components only for x, given as an out-of-range marker)
    vars_tok = "|".join(c if c else "[]" for c in comps)
    reads = "|".join(",".join(str(num[v]) for v in sysm.discs[k]["ins"]) or "[]" for k in members)
    writes = "|".join(",".join(str(num[v]) for v in sysm.discs[k]["outs"]) or "[]" for k in members)
    return f"io {len(allv)} {vars_tok} {reads} {writes}", allv


def _rows_line(case: dict[str, Any], sysm: System) -> str:
    names, off, n = _layout(sysm)
    sizes = sysm.sizes
    rows_coef: list[list[Fraction]] = []
    for o in names:
        spec = sysm.discs[sysm.out_owner[o]]["outs"][o]
        for r in range(sizes[o]):
            row = [Fraction(0)] * n
            for i, mat in spec["m"].items():
                if i in off:
                    for c, a in enumerate(mat[r]):
                        row[off[i] + c] += Fraction(a)
            rows_coef.append(row)
    discs = []
    for k in case["order"]:
        idx = [off[o] + r for o in sysm.discs[k]["outs"] for r in range(sizes[o])]
        discs.append(",".join(map(str, idx)))
    return "sys " + ";".join(common.rats(r) for r in rows_coef) + " " + "|".join(discs)


def _consts_start(sysm: System, run: dict[str, Any]) -> tuple[list[Fraction], list[Fraction]]:
    names, _, _ = _layout(sysm)
    x = [Fraction(t) for t in run["x"]]
    consts, start = [], []
    for o in names:
        spec = sysm.discs[sysm.out_owner[o]]["outs"][o]
        for r in range(sysm.sizes[o]):
            c = Fraction(spec["c"][r])
            if "x" in spec["m"]:
                c += sum(Fraction(a) * t for a, t in zip(spec["m"]["x"][r], x))
            consts.append(c)
            y0 = run.get("y0", {}).get(o)
            start.append(Fraction(y0[r]) if y0 is not None else Fraction(0))
    return consts, start


def scc_sequence(case: dict[str, Any]) -> list[list[int]]:
    """Strongly connected components of the coupling graph of the plain disciplines, producers first
    (independent of GEMSEO: Tarjan; the members of a component are in the listed order of the case)."""
    discs = case["discs"]
    n = len(discs)
    owner = {o: k for k, d in enumerate(discs) for o in d["outs"]}
    succ: list[set[int]] = [set() for _ in range(n)]  # producer -> consumer
    for k, d in enumerate(discs):
        for v in d["ins"]:
            if v in owner and owner[v] != k:
                succ[owner[v]].add(k)
    index: dict[int, int] = {}
    low: dict[int, int] = {}
    stack: list[int] = []
    on: set[int] = set()
    comps: list[list[int]] = []

    def visit(v: int) -> None:
        index[v] = low[v] = len(index)
        stack.append(v)
        on.add(v)
        for w in sorted(succ[v]):
            if w not in index:
                visit(w)
                low[v] = min(low[v], low[w])
            elif w in on:
                low[v] = min(low[v], index[w])
        if low[v] == index[v]:
            comp = []
            while True:
                w = stack.pop()
                on.discard(w)
                comp.append(w)
                if w == v:
                    break
            comps.append(comp)

    for v in range(n):
        if v not in index:
            visit(v)
    comps.reverse()  # Tarjan emits consumers first
    pos = {k: i for i, k in enumerate(case["order"])}
    return [sorted(c, key=lambda k: pos[k]) for c in comps]


def _settings_tokens(case: dict[str, Any]) -> tuple[str, str]:
    """(chain-level BaseMDASettings fields, settings given for the inner MDAs) as the `k=v,..` tokens."""
    m = case["mda"]
    chain = f"tolerance={m['tol']},max_mda_iter={int(m['max_iter'])},warm_start={1 if m['warm'] else 0}"
    given = []
    if m.get("inner") in SOLVER_CLASSES:
        given.append(f"over_relaxation_factor={m['omega']}")
    explicit = m.get("extra", {}).get("inner_given") or {}
    given += [f"{k}={explicit[k]}" for k in ("tolerance", "max_mda_iter") if k in explicit]
    if m.get("extra", {}).get("inner_form") == "model":
        # dict(<Pydantic model>) holds every field, the untouched ones with their default values
        defaults = {"tolerance": "1/1000000", "max_mda_iter": "20", "warm_start": "0"}
        given += [f"{k}={v}" for k, v in defaults.items() if k not in explicit]
    return chain, ",".join(given) or "[]"


def protocol_lines(case: dict[str, Any]) -> list[str]:
    """`sys`, (`io`,) `cfg` and one `run` line per execution — or, for MDAChain, `sys`, (`io`, `grp`) per
    component and one `chain` line (first execution) — on the flattened affine system, see Driver/C06.lean."""
    sysm = System(case)
    sizes = sysm.sizes
    names, off, n = _layout(sysm)
    m = case["mda"]
    if m["cls"] == "MDAChain":
        lines = [_rows_line(case, sysm)]
        chain_tok, given_tok = _settings_tokens(case)
        for comp in scc_sequence(case):
            io, _ = _io_line(sysm, comp)
            lines.append(io)
            d = sysm.discs[comp[0]]
            self_c = 1 if len(comp) == 1 and any(o in d["ins"] for o in d["outs"]) else 0
            rows = "|".join(",".join(str(off[o] + r) for o in sysm.discs[k]["outs"] for r in range(sizes[o])) for k in comp)
            lines.append(
                f"grp {rows} {self_c} 0 {ALGO_TOKEN[m['inner']]} auto auto {SCALINGS.index(m['scaling'])} "
                f"{m['omega']} none {chain_tok} {given_tok}"
            )
        consts, start = _consts_start(sysm, case["runs"][0])
        lines.append(f"chain {int(m['max_iter']) + 2} {common.rats(consts)} {common.rats(start)}")
        return lines
    if m["cls"] == "MDASequential":
        lines = [_rows_line(case, sysm), _io_line(sysm, list(case["order"]))[0]]
        for name, st in zip(m["seq"], m["stages"]):
            lines.append(
                f"stage {ALGO_TOKEN[name]} auto auto auto {rat(stage_tolerance(m, st))} {int(st['max_iter'])} "
                f"{SCALINGS.index(m['scaling'])} {m['omega']} none {1 if m['warm'] else 0}"
            )
        consts, start = _consts_start(sysm, case["runs"][0])
        lines.append(f"seq {m['tol']} 103 {common.rats(consts)} {common.rats(start)}")
        return lines
    cpl = sysm.couplings
    if case["shape"] != "strong" and not has_weak_disciplines(case):
        # MDAJacobi on several groups of strongly coupled disciplines resolves the strong couplings of the groups
        cpl = sorted(
            v
            for comp in scc_sequence(case)
            for v in {i for k in comp for i in sysm.discs[k]["ins"]} & {o for k in comp for o in sysm.discs[k]["outs"]}
        )
    res = [off[o] + r for o in cpl for r in range(sizes[o])]
    groups, pos = [], 0
    for o in cpl:
        groups.append(",".join(str(pos + r) for r in range(sizes[o])))
        pos += sizes[o]
    accelerated = m["accel"] != "NoTransformation"
    auto = case["shape"] == "strong"  # one strongly coupled group: the model computes what is resolved
    res_tok = "auto" if auto else (",".join(map(str, res)) or "[]")
    lines = [
        _rows_line(case, sysm),
        _io_line(sysm, list(case["order"]))[0],
        "cfg {} {} {} {} {} {} {} {} {} {}".format(
            ALGO_TOKEN[m["cls"]],
            res_tok,
            "auto" if auto else ("|".join(groups) or "[]"),
            res_tok,
            m["tol"],
            m["max_iter"],
            SCALINGS.index(m["scaling"]),
            m["omega"],
            ACCEL_TOKEN[m["accel"]],
            1 if m["warm"] else 0,
        ),
    ]
    for run in case["runs"]:
        consts, start = _consts_start(sysm, run)
        fuel = ACCEL_CAP if accelerated else int(m["max_iter"]) + 2
        lines.append(f"run {fuel} {common.rats(consts)} {common.rats(start)}")
    return lines


def parse_run_answer(ans: str) -> dict[str, Any]:
    toks = ans.split(" ")
    if len(toks) != 6 or not toks[1].startswith("it="):
        return {"outcome": "bad:" + ans[:60]}

    def lst(t: str) -> list[Fraction]:
        t = t.split("=", 1)[1]
        return [] if t == "[]" else [Fraction(v) for v in t.split(",")]

    return {"outcome": toks[0], "it": int(toks[1][3:]), "hist": lst(toks[2]), "raw": lst(toks[3]), "out": lst(toks[4]), "amp": ref_amplification(toks[5])}


def ref_amplification(tok: str) -> float:
    """`ref=c:<min |c_i|>` / `ref=g:<min |r0_i|^2>` -> by how much the component-wise / variable-wise scaling of the
    model amplifies the rounding noise of a residual (1 / smallest reference)."""
    try:
        kind, val = tok.split("=", 1)[1].split(":", 1)
        q = Fraction(val)
        if q <= 0:
            return 1.0
        return 1.0 / (float(q) if kind == "c" else fsqrt(q))
    except (ValueError, IndexError, ZeroDivisionError):
        return 1.0


def fsqrt(q: Fraction) -> float:
    """Float square root of a non-negative rational (correct to ~1e-15 relative)."""
    if q <= 0:
        return 0.0
    num, den = q.numerator, q.denominator
    # scale to keep 128 significant bits
    shift = max(0, 256 - (num.bit_length() - den.bit_length()))
    shift += shift % 2
    v = math.isqrt((num << shift) // den)
    return v / 2.0 ** (shift // 2) if shift // 2 < 1000 else float(Fraction(v, 2 ** (shift // 2)))


def _names_of(ans_tok: str, allv: list[str]) -> list[str] | None:
    """`sc=<i,i,..>` -> variable names."""
    try:
        t = ans_tok.split("=", 1)[1]
        return [] if t == "[]" else [allv[int(i)] for i in t.split(",")]
    except (IndexError, ValueError):
        return None


def compare_structure(case: dict[str, Any], obs: dict[str, Any], io_answer: str, members: list[int], observed: list[str] | None) -> list[str]:
    """The strong couplings the model computes for a group (`io` line) against the ones the real MDA reports."""
    if observed is None:
        return []
    allv = sorted(System(case).sizes)
    sc = _names_of(io_answer.split(" ")[0], allv) if io_answer.startswith("sc=") else None
    if sc is None:
        return [f"driver answered {io_answer[:80]} to the io line"]
    if sorted(sc) != sorted(observed):
        names = [case["discs"][k]["name"] for k in members]
        return [f"strong couplings of {names}: code {sorted(observed)}, model {sorted(sc)}"]
    return []


def compare_chain_with_model(case: dict[str, Any], obs: dict[str, Any], answers: list[str]) -> list[str]:
    """MDAChain against `chainExecute`: which components get an inner MDA, the settings the inner MDAs received,
    their strong couplings, their residual histories (first execution) and the returned data."""
    diffs: list[str] = []
    m = case["mda"]
    sysm = System(case)
    comps = scc_sequence(case)
    inner_obs = obs.get("inner")
    if inner_obs is None or "exc" in obs["runs"][0]:
        return [f"code: {obs.get('inner_exc') or obs['runs'][0].get('exc')}"]
    by_members = {frozenset(i["discs"]): (j, i) for j, i in enumerate(inner_obs)}
    tol = float(Fraction(m["tol"]))
    expected_mdas = []
    for ci, comp in enumerate(comps):
        io_ans, grp_ans = answers[1 + 2 * ci], answers[2 + 2 * ci]
        toks = dict(t.split("=", 1) for t in grp_ans.split(" ")[1:]) if grp_ans.startswith("ok ") else None
        if toks is None:
            return [f"driver answered {grp_ans[:80]} to a grp line"]
        names = frozenset(case["discs"][k]["name"] for k in comp)
        seen = by_members.get(names)
        if (toks["mda"] == "1") != (seen is not None):
            diffs.append(f"component {sorted(names)}: inner MDA in the code: {seen is not None}, in the model: {toks['mda'] == '1'}")
            return diffs
        if seen is None:
            continue
        j, io = seen
        expected_mdas.append(j)
        diffs += compare_structure(case, obs, io_ans, comp, io["strong_couplings"])
        if not (io["tolerance"] == float(Fraction(toks["tol"])) and io["max_mda_iter"] == int(toks["maxit"]) and io["warm_start"] == (toks["warm"] == "1")):
            diffs.append(
                f"settings of the inner MDA of {sorted(names)}: code tolerance={io['tolerance']!r} max_mda_iter={io['max_mda_iter']} "
                f"warm_start={io['warm_start']}, model tolerance={float(Fraction(toks['tol']))!r} max_mda_iter={toks['maxit']} warm_start={toks['warm'] == '1'}"
            )
        if diffs:
            return diffs
    if len(expected_mdas) != len(inner_obs):
        return [f"the code created {len(inner_obs)} inner MDAs, the model {len(expected_mdas)}"]
    ans = answers[-1]
    if not ans.startswith("out="):
        return [f"driver answered {ans[:80]} to the chain line"]
    segs = ans.split(" ; ")
    out_tok = segs[0].split("=", 1)[1]
    mod_out = [] if out_tok == "[]" else [Fraction(v) for v in out_tok.split(",")]
    r = obs["runs"][0]
    names_sorted = sorted(sysm.outputs)
    flat = [v for o in names_sorted for v in r["out"].get(o, [])]
    ymax = max([abs(v) for v in flat] + [abs(float(v)) for v in mod_out] + [1.0])
    all_safe = True
    for seg, j in zip(segs[1:], expected_mdas):
        toks = seg.split(" ")
        outcome = toks[0]
        hist = [Fraction(v) for v in toks[2].split("=", 1)[1].split(",")] if toks[2] != "hist=[]" else []
        raw = [Fraction(v) for v in toks[3].split("=", 1)[1].split(",")] if toks[3] != "raw=[]" else []
        ih = r["inner_hist"][j] if j < len(r.get("inner_hist", [])) else []
        tag = f"inner MDA {inner_obs[j]['discs']}"
        if not all(math.isfinite(h) for h in ih):
            return [f"{tag}: non-finite residual history in the code, model: {outcome}"]
        inv_scale = max([fsqrt(h / w) for h, w in zip(hist, raw) if w > 0] + [1.0, ref_amplification(toks[4]) if len(toks) > 4 else 1.0])
        noise = 2.0**-38 * (1 + ymax) * inv_scale
        safe = True
        for k, (a, b) in enumerate(zip(ih, hist)):
            sb = fsqrt(b)
            band = 2.0**-30 * sb + noise
            if abs(sb - tol) <= 2 * band:
                safe = False
            if not abs(a - sb) <= band:
                return [f"{tag}: normed residual of iteration {k + 1}: code {a!r}, model {sb!r} (band {band:.2e})"]
        if outcome == "capped":
            return diffs
        if safe and len(ih) != len(hist):
            return [f"{tag}: code performed {len(ih)} iterations, model {len(hist)} ({outcome})"]
        if len(ih) != len(hist):
            all_safe = False
            break  # decision within the rounding margin: what follows starts from different data
    if all_safe:
        if len(flat) != len(mod_out):
            return [f"returned data has {len(flat)} components, model {len(mod_out)}"]
        for k, (a, b) in enumerate(zip(flat, mod_out)):
            if not abs(a - float(b)) <= (2.0**-30 + 2.0**-36) * max(abs(float(b)), 1.0) + 2.0**-38 * (1 + ymax) * 64:
                return [f"returned component {k}: code {a!r}, model {float(b)!r}"]
    return diffs


def compare_seq_with_model(case: dict[str, Any], obs: dict[str, Any], answers: list[str]) -> list[str]:
    """MDASequential against `seqExecute` (first execution): which sub-MDAs are executed, their residual histories
    and the returned data. A decision (stop of a sub-MDA on ITS tolerance, stop of the sequence on the tolerance of
    the SEQUENCE) is compared only when the model's residual is outside the rounding band of that tolerance."""
    m = case["mda"]
    sysm = System(case)
    diffs = compare_structure(case, obs, answers[1], list(case["order"]), obs.get("strong_couplings"))
    if diffs:
        return diffs
    r = obs["runs"][0]
    if "exc" in r:
        return [f"code raised {r['exc']}"]
    ans = answers[-1]
    if not ans.startswith("out="):
        return [f"driver answered {ans[:80]} to the seq line"]
    segs = ans.split(" ; ")
    out_tok = segs[0].split("=", 1)[1]
    mod_out = [] if out_tok == "[]" else [Fraction(v) for v in out_tok.split(",")]
    sh = r.get("stage_hist")
    if sh is None or len(sh) != len(m["stages"]):
        return [f"the code reports {None if sh is None else len(sh)} sub-MDAs, the case has {len(m['stages'])}"]
    names_sorted = sorted(sysm.outputs)
    flat = [v for o in names_sorted for v in r["out"].get(o, [])]
    ymax = max([abs(v) for v in flat] + [abs(float(v)) for v in mod_out] + [1.0])
    outer = float(Fraction(m["tol"]))
    for j, seg in enumerate(segs[1:]):
        toks = seg.split(" ")
        outcome = toks[0]
        hist = [Fraction(v) for v in toks[2].split("=", 1)[1].split(",")] if toks[2] != "hist=[]" else []
        raw = [Fraction(v) for v in toks[3].split("=", 1)[1].split(",")] if toks[3] != "raw=[]" else []
        ih = sh[j]
        tag = f"sub-MDA {j} ({m['seq'][j]}, tolerance {float(stage_tolerance(m, m['stages'][j])):.3e}, max_mda_iter {m['stages'][j]['max_iter']})"
        if not all(math.isfinite(h) for h in ih):
            return [f"{tag}: non-finite residual history in the code, model: {outcome}"]
        if outcome == "capped":
            return []
        tol_j = float(stage_tolerance(m, m["stages"][j]))
        inv_scale = max([fsqrt(h / w) for h, w in zip(hist, raw) if w > 0] + [1.0, ref_amplification(toks[4]) if len(toks) > 4 else 1.0])
        noise = 2.0**-38 * (1 + ymax) * inv_scale
        safe = True
        for k, (a, b) in enumerate(zip(ih, hist)):
            sb = fsqrt(b)
            band = 2.0**-30 * sb + noise
            if abs(sb - tol_j) <= 2 * band or (k == len(hist) - 1 and abs(sb - outer) <= 2 * band):
                safe = False
            if not abs(a - sb) <= band:
                return [f"{tag}: normed residual of iteration {k + 1}: code {a!r}, model {sb!r} (band {band:.2e})"]
        if not safe:
            return []  # a decision within the rounding margin: what follows may legitimately differ
        if len(ih) != len(hist):
            if not ih:
                return [f"{tag} is not executed by the code (the sequence stopped before it); the model executes it ({len(hist)} iterations, {outcome})"]
            return [f"{tag}: code performed {len(ih)} iterations, model {len(hist)} ({outcome})"]
    n_model = len(segs) - 1
    later = [j for j in range(n_model, len(sh)) if sh[j]]
    if later:
        return [f"the code executes sub-MDA {later[0]} ({m['seq'][later[0]]}); in the model the sequence stops after sub-MDA {n_model - 1} (normed residual below the tolerance of the sequence {outer:.3e})"]
    if len(flat) != len(mod_out):
        return [f"returned data has {len(flat)} components, model {len(mod_out)}"]
    for k, (a, b) in enumerate(zip(flat, mod_out)):
        if not abs(a - float(b)) <= (2.0**-30 + 2.0**-36) * max(abs(float(b)), 1.0) + 2.0**-38 * (1 + ymax) * 64:
            return [f"returned component {k}: code {a!r}, model {float(b)!r}"]
    return []


def compare_with_model(case: dict[str, Any], obs: dict[str, Any], answers: list[str]) -> list[str]:
    """Differences between the real MDA and the exact replay (`answers`: one per protocol line).

    Rounded stream: a normed residual of the code must equal the model's within
    `rel * model + noise`, where `rel` = 2^-30 (2^-20 with an acceleration: the extrapolation
    coefficients are quotients of differences of residuals) and `noise` = 2^-38 * (1 + max|y|) / scale is
    the rounding noise of a residual `G(y) - y` computed in floats, divided by the smallest scale the
    model used. The iteration count is compared only when no model residual is within that band of the
    tolerance.
    """
    m = case["mda"]
    if m["cls"] == "MDAChain":
        return compare_chain_with_model(case, obs, answers)
    if m["cls"] == "MDASequential":
        return compare_seq_with_model(case, obs, answers)
    diffs: list[str] = []
    if case["shape"] == "strong":
        diffs += compare_structure(case, obs, answers[1], list(case["order"]), obs.get("strong_couplings"))
        if diffs:
            return diffs
    answers = answers[3:]
    accelerated = m["accel"] != "NoTransformation"
    rel = 2.0**-20 if accelerated else 2.0**-30
    tol = float(Fraction(m["tol"]))
    sysm = System(case)
    names = sorted(sysm.outputs)
    for ridx, (r, ans) in enumerate(zip(obs["runs"], answers)):
        mod = parse_run_answer(ans)
        tag = f"run{ridx}"
        if mod["outcome"].startswith("bad"):
            diffs.append(f"{tag}: driver answered {mod['outcome']}")
            break
        if "exc" in r:
            diffs.append(f"{tag}: code raised {r['exc']}, model: {mod['outcome']}")
            break
        ih = r["history"]
        if not all(math.isfinite(h) for h in ih):
            if mod["outcome"] != "nan":
                diffs.append(f"{tag}: non-finite residual history in the code, model: {mod['outcome']}")
            break
        if mod["outcome"] == "nan":
            diffs.append(f"{tag}: model divides by zero in the acceleration, code history finite")
            break
        ymax = max([abs(v) for o in names for v in r["out"].get(o, [0.0])] + [abs(float(v)) for v in mod["out"]] + [1.0])
        inv_scale = max([fsqrt(h / w) for h, w in zip(mod["hist"], mod["raw"]) if w > 0] + [1.0, mod["amp"]])
        noise = 2.0**-38 * (1 + ymax) * inv_scale * (8 if accelerated else 1)
        safe = True
        for k, (a, b) in enumerate(zip(ih, mod["hist"])):
            sb = fsqrt(b)
            band = rel * sb + noise
            if abs(sb - tol) <= 2 * band:
                safe = False
            if not abs(a - sb) <= band:
                diffs.append(f"{tag}: normed residual of iteration {k + 1}: code {a!r}, model {sb!r} (band {band:.2e})")
                break
        if diffs:
            break
        if mod["outcome"] == "capped":
            if len(ih) < len(mod["hist"]) and safe:
                diffs.append(f"{tag}: code stopped after {len(ih)} iterations, model still iterating after {len(mod['hist'])}")
                break
            # the state of the model after a capped run is not the state of the code: stop comparing
            break
        if safe and len(ih) != mod["it"]:
            diffs.append(f"{tag}: code performed {len(ih)} iterations, model {mod['it']} ({mod['outcome']})")
            break
        if len(ih) != mod["it"]:
            break  # decision within the rounding margin: later runs start from different states
        # returned data
        flat = [v for o in names for v in r["out"].get(o, [])]
        if len(flat) != len(mod["out"]):
            diffs.append(f"{tag}: returned data has {len(flat)} components, model {len(mod['out'])}")
            break
        for k, (a, b) in enumerate(zip(flat, mod["out"])):
            if not abs(a - float(b)) <= (rel + 2.0**-36) * max(abs(float(b)), 1.0) + noise:
                diffs.append(f"{tag}: returned component {k}: code {a!r}, model {float(b)!r}")
                break
        if diffs:
            break
    return diffs


# --------------------------------------------------------------------------- failing-input search, shrinking


def _with(case: dict[str, Any], **mda_changes: Any) -> dict[str, Any]:
    c = json.loads(json.dumps(case))
    c["mda"].update(mda_changes)
    return c


def simplifications(case: dict[str, Any]):
    """Smaller variants of a case (each one is still inside the property's quantifier)."""
    m = case["mda"]
    if len(case["runs"]) > 1:
        c = json.loads(json.dumps(case))
        c["runs"] = c["runs"][:1]
        c["mda"]["warm"] = False
        yield c
        c = json.loads(json.dumps(case))
        c["runs"] = c["runs"][1:]
        c["mda"]["warm"] = False
        yield c
    if m["warm"]:
        yield _with(case, warm=False)
    if m["scaling"] != "no_scaling":
        yield _with(case, scaling="no_scaling")
    if m["accel"] != "NoTransformation":
        yield _with(case, accel="NoTransformation")
    if m["omega"] != "1":
        yield _with(case, omega="1")
    for run_i, run in enumerate(case["runs"]):
        if run.get("y0"):
            c = json.loads(json.dumps(case))
            c["runs"][run_i].pop("y0")
            yield c
    if case["order"] != sorted(case["order"]):
        c = json.loads(json.dumps(case))
        c["order"] = sorted(c["order"])
        yield c
    # shrink the variable sizes to 1 (keep the first component of everything)
    if any(s > 1 for s in case["vars"].values()):
        c = json.loads(json.dumps(case))
        for v in c["vars"]:
            c["vars"][v] = 1
        for d in c["discs"]:
            for spec in d["outs"].values():
                spec["c"] = spec["c"][:1]
                spec["m"] = {i: [row[:1] for row in mat[:1]] for i, mat in spec["m"].items()}
        for run in c["runs"]:
            run["x"] = run["x"][:1]
            if "y0" in run:
                run["y0"] = {k: v[:1] for k, v in run["y0"].items()}
        yield c
    if Fraction(m["tol"]) < Fraction(1, 2**10):
        yield _with(case, tol="1/1024")


def in_scope(case: dict[str, Any]) -> bool:
    """Shadow validity check of a (shrunk / neighbour) case: still a well-posed contractive system."""
    try:
        sysm = System(case)
        kb = sysm.lipschitz_bound()
        if not kb <= Fraction(1, 2):
            return False
        w = Fraction(case["mda"]["omega"])
        if not (0 < w <= 2) or not abs(1 - w) + w * kb <= Fraction(7, 8):
            return False
        xs = [tuple(r["x"]) for r in case["runs"]]
        return len(set(xs)) == len(xs)
    except Exception:  # noqa: BLE001
        return False


def shrink_case(case: dict[str, Any], key: str, budget: int = 40) -> dict[str, Any]:
    cur = case
    calls = 0
    progress = True
    while progress and calls < budget:
        progress = False
        for cand in simplifications(cur):
            calls += 1
            if calls > budget:
                break
            if not in_scope(cand):
                continue
            try:
                bad = oracle(cand, run_impl(cand))
            except Exception:  # noqa: BLE001
                continue
            # the class part of the key may change while shrinking (e.g. relax -> norelax): keep the failure kind
            if any(k.rsplit(":", 1)[-1] == key.rsplit(":", 1)[-1] and case_class(cand) == case_class(case) for k, _ in bad):
                cur = cand
                progress = True
                break
    return cur


def neighbours(case: dict[str, Any], rng: common.Rng):
    """Failing-input search around a model/code disagreement: same system with other settings."""
    for sc in SCALINGS:
        if sc != case["mda"]["scaling"]:
            yield _with(case, scaling=sc)
    for t in ("1/1024", "1/1048576", "1/1073741824"):
        if t != case["mda"]["tol"]:
            yield _with(case, tol=t)
    yield from simplifications(case)
    for _ in range(20):
        c = gen_case(rng, shape=case["shape"], kind="lin", cls=case["mda"]["cls"])
        c["mda"].update({k: case["mda"][k] for k in ("accel", "omega", "scaling", "warm") if k in case["mda"]})
        yield c


# --------------------------------------------------------------------------- run


def load_corpus() -> list[dict[str, Any]]:
    d = common.CORPUS_DIR / PID
    out = []
    if d.is_dir():
        for p in sorted(d.glob("*.json")):
            out.append(json.loads(p.read_text())["case"])
    return out


def evaluate(res: Result, cases: list[dict[str, Any]], rng: common.Rng, scope: bool = True) -> None:
    """Real code + oracle on every case; Lean replay + comparison on the replayable ones."""
    lines: list[str] = []
    spans: dict[int, tuple[int, int]] = {}
    for k, c in enumerate(cases):
        if replayable(c):
            ls = protocol_lines(c)
            spans[k] = (len(lines), len(lines) + len(ls))
            lines += ls
    answers = common.run_lean_driver(PID, lines) if lines else []
    for k, case in enumerate(cases):
        res.evaluations += 1
        obs = run_impl(case)
        kc = case_class(case)
        m = case["mda"]
        res.count("class=" + kc.split(":")[0])
        res.count("accel=" + m["accel"])
        res.count("scaling=" + m["scaling"])
        res.count("shape=" + case["shape"] + "/" + case["discs"][0]["kind"])
        res.count("relaxation=" + ("yes" if m["omega"] != "1" else "no"))
        res.count("warm=" + str(bool(m["warm"])))
        res.count(f"ndisc={len(case['discs'])}")
        res.count("self-coupled=" + str(any(o in d["ins"] for d in case["discs"] for o in d["outs"])))
        extra = m.get("extra", {})
        owners = {k for k, d in enumerate(case["discs"]) for o in d["outs"] if o.startswith("s")}
        if owners:
            in_cycle = any(len(c) > 1 and owners & set(c) for c in scc_sequence(case))
            res.count("private-self-coupling=" + ("member-of-a-cycle-of-several-disciplines" if in_cycle else "stand-alone-discipline"))
        for g in case.get("groups") or []:
            res.count(f"process-discipline={g['kind']}/{len(g['members'])}")
        if case.get("groups"):
            items, reads = condensed_graph(case)
            if any(len(it) > 1 and i in reads[i] for i, it in enumerate(items)):
                res.count("process-discipline:self-coupled")
        res.count("settings-form=" + extra.get("form", "kwargs") + ("/inner-" + extra["inner_form"] if "inner_form" in extra else ""))
        if extra.get("api"):
            res.count("api=" + extra["api"])
        for st in (m.get("stages") or [])[:-1]:
            res.count(
                "sequence-starter="
                + ("looser-tolerance" if "loose" in st else "tolerance/" + str(st["div"]))
                + ("/budget<=5" if st["max_iter"] <= 5 else "/budget=60")
            )
        if m.get("stages"):
            res.count(f"sequence-last-stage=tolerance/{m['stages'][-1]['div']}")
            sh = (obs.get("runs") or [{}])[0].get("stage_hist")
            if sh is not None:
                res.count(f"sequence-stages-executed={sum(1 for h in sh if h)}/{len(sh)}")
        if extra.get("inner_given"):
            res.count("inner-settings-carry-own=" + "+".join(sorted(extra["inner_given"])))
        if kc.startswith("elementary-mda-on-weak-couplings"):
            res.count("direct-on-weak=" + m["cls"])
        if kc.startswith("elementary-mda-on-several-groups"):
            res.count("direct-on-several-strongly-coupled-groups=" + m["cls"])
        iters = [len(r.get("history", [])) for r in obs.get("runs", [])]
        if any(i >= 2 for i in iters) or m["cls"] in ("MDAQuasiNewton", "MDAChain"):
            res.nontrivial(json.dumps([case["discs"], case["order"], m, case["runs"]], sort_keys=True))
        if not scope:
            res.count("probe=" + m.get("probe", "?"))
            if "build_exc" in obs:
                res.count("probe:build-raises=" + obs["build_exc"].split(": ")[0])
            try:
                if oracle(case, obs):
                    res.count("probe-oracle-fails")
            except Exception:  # noqa: BLE001
                res.count("probe-oracle-error")
            continue
        bad = oracle(case, obs)
        for tag in obs.get("not_judged", []):
            res.count("not-judged:reported-non-convergence(broyden)")
        res.sample({"class": kc, "mda": m, "iterations": iters, "oracle": "ok" if not bad else bad[0][1]})
        for key, msg in bad:
            if any(v.key == key for v in res.violations):
                continue
            small = shrink_case(case, key)
            o2 = run_impl(small)
            b2 = [mm for kk, mm in oracle(small, o2) if kk == key]
            res.violate("oracle", key, b2[0] if b2 else msg, {"case": small if b2 else case, "impl": o2 if b2 else obs})
        if k in spans:
            a, b = spans[k]
            diffs = compare_with_model(case, obs, answers[a:b])
            res.count("replayed")
            if not diffs:
                res.traces_validated += 1
                continue
            res.disagreements += 1
            res.count("disagreement:" + kc)
            if bad:
                continue
            found = False
            for nb in neighbours(case, rng):
                if not in_scope(nb):
                    continue
                o2 = run_impl(nb)
                b2 = oracle(nb, o2)
                if b2:
                    key, msg = b2[0]
                    if not any(v.key == key for v in res.violations):
                        small = shrink_case(nb, key)
                        res.violate("oracle", key, msg, {"case": small, "impl": run_impl(small), "found_from": "neighbour of a model/code disagreement"})
                    found = True
                    break
            if not found:
                res.violate(
                    "correspondence",
                    "model-vs-impl:" + kc,
                    "the real MDA and the exact replay of the Lean model disagree: " + diffs[0],
                    {
                        "case": case,
                        "protocol_lines": [ln[:2000] for ln in protocol_lines(case)],
                        "model_answers": [x[:2000] for x in answers[a:b]],
                        "impl": obs,
                        "diffs": diffs,
                        "correspondence": "Driver/C06.lean `io`/`cfg`/`run` (GV.C06.strongCouplingVars, GV.C06.execute) or `grp`/`chain` (GV.C06.innerSettings, requiresMda, chainExecute) or `stage`/`seq` (GV.C06.seqExecute)",
                    },
                )


def gen_probe(rng: common.Rng) -> dict[str, Any]:
    """Out-of-scope probes (never a VIOLATION): extreme relaxation factors, and the Newton-type MDAs used directly
    on weakly coupled disciplines (MDANewtonRaphson documents a ValueError: "use MDAChain")."""
    case = gen_system(rng, "mixed", "lin")
    if rng.chance(0.5):
        case["mda"] = gen_mda(rng, case, rng.pick(["MDANewtonRaphson", "MDAGSNewton"]))
        case["mda"]["probe"] = "newton-on-weak"
    else:
        case["mda"] = gen_mda(rng, case, rng.pick(["MDAGaussSeidel", "MDAJacobi"]))
        case["mda"]["omega"] = rng.pick(["2", "7/4"])
        case["mda"]["probe"] = "extreme-relaxation"
    case["mda"]["warm"] = False
    case["runs"] = [{"x": [rat(rng.dyadic(-4, 4, 2)) for _ in range(case["vars"]["x"])]}]
    return case


def run(ctx) -> Result:
    res = Result(PID)
    res.rule = (
        "random contractive coupled systems (2-5 disciplines + chains of up to 3 weakly coupled post-processing disciplines, "
        "variable sizes 1-3; one strongly connected component, several components with weakly coupled disciplines, or several "
        "groups of strongly coupled disciplines; self-coupled disciplines, incl. a private variable a member of a cycle only "
        "feeds back to itself, contracting up to 16 times more slowly than the shared couplings; affine with dyadic coefficients "
        "and row sums <= 1/2, 1/4 or 1/8, or non-linear t/(1+t^2), sin) x every MDA class of the factory (MDAChain with every "
        "inner MDA; MDAJacobi / MDAGaussSeidel / MDAQuasiNewton / Jacobi-GS sequences also directly on several components, the "
        "Newton-type ones directly on several strongly coupled groups) x process disciplines (members wrapped in an MDOChain / "
        "MDOParallelChain / converged sub-MDA given as ONE discipline) x settings given as keywords, as a settings model, through "
        "create_mda, inner settings as a dictionary or as the Pydantic model of the inner class x acceleration x relaxation x 6 "
        "residual scalings x listing order x tolerance x warm start / second execution; MDASequential over 2-3 sub-MDA objects "
        "built with their OWN tolerance / max_mda_iter (a starter looser than the sequence that reaches its tolerance, "
        "budget-limited, tighter; last stage at least as accurate as the sequence); inner settings carrying a coarse tolerance / "
        "budget of their own; sessions of 2-4 MDA objects alive in one process (accurate and coarse, constructions, "
        "settings.tolerance / settings.max_mda_iter assignments and executions interleaved); a case is non-trivial when the MDA "
        "iterates at least twice (or is a SciPy / chained solve), a session when it has a judged object; distinct by "
        "system+settings+inputs(+history)"
    )
    res.assumptions = [
        "MDANewtonRaphson (hence MDAGSNewton and sequences with a Newton stage) rejects weakly coupled disciplines with a documented ValueError ('use MDAChain'): such systems are solved through MDAChain; the direct use is only probed",
        "relaxation factors w with |1-w| + w*K <= 7/8 (the relaxed map is a contraction); max_mda_iter in {60, 100} suffices for these rates",
        "tolerances relative to an initial residual are >= 2^-30 (2^-16 inside MDASequential / MDAGSNewton) so that tol*scale stays above the resolution of floats",
        "SciPy Broyden runs that GEMSEO itself reports as not converged are not judged",
        "an MDA used as a discipline of another MDA is given a tolerance 64 times tighter than the outer one (its answer is the discipline's output)",
        "the last sub-MDA of an MDASequential has a tolerance <= the tolerance of the sequence and 100 iterations (MDASequential cascades nothing: the tolerance of a looser last stage is the requested one)",
        "in a session only the executions of accurate objects (max_mda_iter >= 60 at that time) are judged, at the tolerance held by the object at that time; coarse objects (1-3 iterations) only live next to them",
    ]
    rng = ctx.rng
    corpus = load_corpus()
    evaluate(res, corpus, rng)
    res.count("corpus", len(corpus))
    n_all = 4000 if ctx.thorough else 240
    n_rep = 4000 if ctx.thorough else 160
    batch = 200
    import time

    done = 0
    while done < n_all and time.time() < ctx.deadline:
        evaluate(res, [gen_case(rng) for _ in range(min(batch, n_all - done))], rng)
        done += batch
    done = 0
    while done < n_rep and time.time() < ctx.deadline:
        cases = []
        while len(cases) < min(batch, n_rep - done):
            c = gen_case(
                rng, kind="lin", cls=rng.pick(["MDAJacobi", "MDAGaussSeidel", "MDANewtonRaphson", "MDAChain", "MDAChain", "MDASequential"]), grouped=False
            )
            if replayable(c):
                cases.append(c)
        evaluate(res, cases, rng)
        done += batch
    # targeted streams (regions the generic stream reaches too rarely)
    n_t = 600 if ctx.thorough else 45
    streams = [
        # a discipline of a cycle that also feeds a private variable back to itself, every class
        lambda: gen_case(rng, shape="strong", private=True),
        # compositions: MDAChain over process disciplines (MDOChain / MDOParallelChain / MDA), settings models
        lambda: gen_case(rng, cls="MDAChain", grouped=rng.chance(0.7)),
        # elementary MDAs used directly on systems with several strongly connected components
        lambda: gen_case(
            rng,
            shape=rng.pick(["mixed", "mixed", "groups"]),
            cls=rng.pick(["MDAGaussSeidel", "MDAGaussSeidel", "MDAQuasiNewton", "MDAQuasiNewton", "MDASequential", "MDAJacobi", "MDANewtonRaphson", "MDAGSNewton"]),
        ),
    ]
    # sequences whose sub-MDAs carry their own tolerance / budget (loose starter that reaches its tolerance, ...)
    streams.append(lambda: gen_case(rng, shape=rng.pick(["strong", "strong", "groups"]), cls="MDASequential"))
    for mk in streams:
        done = 0
        while done < n_t and time.time() < ctx.deadline:
            evaluate(res, [mk() for _ in range(min(batch, n_t - done))], rng)
            done += batch
    # several MDA objects alive in one process: constructions, assignments and executions interleaved
    from harness import c06_session

    n_s = 400 if ctx.thorough else 36
    done = 0
    while done < n_s and time.time() < ctx.deadline:
        c06_session.evaluate(res, [c06_session.gen_session(rng) for _ in range(min(50, n_s - done))])
        done += 50
    evaluate(res, [gen_probe(rng) for _ in range(100 if ctx.thorough else 20)], rng, scope=False)
    return res


def replay(path: str) -> int:
    data = json.loads(open(path).read())
    rp = data.get("replay", data)
    if "session" in rp:
        from harness import c06_session

        return c06_session.replay(rp)
    case = rp["case"]
    obs = run_impl(case)
    bad = oracle(case, obs)
    print("case:", json.dumps(case["mda"]), "order", case["order"], "shape", case["shape"])
    for r in obs.get("runs", []):
        print("impl:", {k: r.get(k) for k in ("out", "normed", "exc")}, "iterations:", len(r.get("history", [])))
    if replayable(case):
        ans = common.run_lean_driver(PID, protocol_lines(case))
        for a in ans:
            print("model:", a[:300])
        for d in compare_with_model(case, obs, ans):
            print("MODEL/CODE DIFFERENCE:", d)
    for k, msg in bad:
        print("ORACLE FAILS:", k, msg)
    return 1 if bad else 0
