"""C06 — every MDA algorithm converges to the multidisciplinary fixed point.

Implementation side: random contractive coupled systems (affine with dyadic data, and a few non-linear
contractions) are solved by every MDA class of the factory with random acceleration / relaxation /
scaling / order / warm-start settings (real code, in-process).

Model side (Lean, Driver/C06.lean): the Jacobi / Gauss-Seidel / Newton iterations with the code's
relaxation, accelerations, stop test (all residual scalings, scale fixed at the first iteration ever run),
max_mda_iter and warm start are replayed in exact rational arithmetic on the affine systems; residual
history, iteration count and returned couplings are compared with the real code (rounded stream).

Oracle (from the property text, independent of model and code): every harness discipline is re-executed
by an independent pure-Python twin on the returned data (residual <= bound, positive assertion) and the
returned couplings are compared with the exact `Fraction` solution of the affine system (or a
high-accuracy reference solution for the non-linear ones).
"""

from __future__ import annotations

import json
import math
import sys
from fractions import Fraction
from typing import Any

import numpy as np

from harness import common
from harness.common import F
from harness.common import Result
from harness.common import rat

PID = "C06"
sys.set_int_max_str_digits(0)  # the exact replay of an accelerated run produces very long rationals

TRUSTED_EXTRA = (
    "C06: harness disciplines (harness/c06_disc.py) are deterministic functions of their inputs; their twins in the oracle are written independently over Fraction/math",
    "C06: float arithmetic of the real MDA is compared with the exact-rational model up to a relative 2^-30 on residual histories and returned couplings (rounded stream)",
    "C06: SciPy root finders (MDAQuasiNewton), SciPy lstsq (Alternate2Delta, MinimumPolynomial) and the linear solvers of the Newton step are not modelled; for them only the oracle applies",
)

SOLVER_CLASSES = ("MDAJacobi", "MDAGaussSeidel", "MDANewtonRaphson")
ACCELS = ("NoTransformation", "Aitken", "Secant", "Alternate2Delta", "AlternateDeltaSquared", "MinimumPolynomial")
SCALINGS = (
    "no_scaling",
    "initial_residual_norm",
    "initial_subresidual_norm",
    "n_coupling_variables",
    "initial_residual_component",
    "scaled_initial_residual_component",
)

# --------------------------------------------------------------------------- exact twin of the system


def fr(s: Any) -> Fraction:
    return Fraction(s)


class System:
    """The coupled system of a case, independent of GEMSEO (exact for affine, float for non-linear)."""

    def __init__(self, case: dict[str, Any]) -> None:
        self.case = case
        self.sizes = {k: int(v) for k, v in case["vars"].items()}
        self.discs = case["discs"]
        self.out_owner = {}
        for k, d in enumerate(self.discs):
            for o in d["outs"]:
                self.out_owner[o] = k
        self.outputs = [o for d in self.discs for o in d["outs"]]
        self.all_inputs = sorted({i for d in self.discs for i in d["ins"]})
        # couplings = variables that are both an output and an input of some discipline
        self.couplings = sorted(o for o in self.outputs if o in self.all_inputs)
        self.ext_inputs = sorted(i for i in self.all_inputs if i not in self.out_owner)
        self.linear = all(d["kind"] == "lin" for d in self.discs)

    # ---- evaluation of one discipline (exact for lin, float otherwise)
    def eval_disc(self, k: int, data: dict[str, list], exact: bool) -> dict[str, list]:
        d = self.discs[k]
        res = {}
        for o, spec in d["outs"].items():
            v = [fr(c) if exact else float(fr(c)) for c in spec["c"]]
            for i, mat in spec["m"].items():
                xi = data[i]
                if d["kind"] == "lin":
                    ph = list(xi)
                elif d["kind"] == "rat":
                    ph = [t / (1 + t * t) for t in xi]
                else:
                    ph = [math.sin(t) for t in xi]
                for r, row in enumerate(mat):
                    for c, a in enumerate(row):
                        a = fr(a) if exact else float(fr(a))
                        if a != 0:
                            v[r] = v[r] + a * ph[c]
            res[o] = v
        return res

    def lipschitz_bound(self) -> Fraction:
        """max row sum of |coefficients| over the non-external inputs (sup-norm Lipschitz constant of G)."""
        k = Fraction(0)
        for d in self.discs:
            for spec in d["outs"].values():
                n = len(spec["c"])
                for r in range(n):
                    s = Fraction(0)
                    for i, mat in spec["m"].items():
                        if i in self.out_owner:
                            s += sum(abs(fr(a)) for a in mat[r])
                    k = max(k, s)
        return k

    def exact_solution(self, ext: dict[str, list[Fraction]]) -> dict[str, list[Fraction]]:
        """Exact solution of the affine system y = A y + b(ext) over Fraction (Gauss elimination)."""
        assert self.linear
        names = self.outputs
        off, n = {}, 0
        for o in names:
            off[o] = n
            n += self.sizes[o]
        a = [[Fraction(0)] * (n + 1) for _ in range(n)]
        for o in names:
            spec = self.discs[self.out_owner[o]]["outs"][o]
            for r in range(self.sizes[o]):
                row = a[off[o] + r]
                row[off[o] + r] += 1
                rhs = fr(spec["c"][r])
                for i, mat in spec["m"].items():
                    for c, co in enumerate(mat[r]):
                        co = fr(co)
                        if i in off:
                            row[off[i] + c] -= co
                        else:
                            rhs += co * ext[i][c]
                row[n] = rhs
        # Gauss-Jordan
        for col in range(n):
            p = next(r for r in range(col, n) if a[r][col] != 0)
            a[col], a[p] = a[p], a[col]
            inv = 1 / a[col][col]
            a[col] = [v * inv for v in a[col]]
            for r in range(n):
                if r != col and a[r][col] != 0:
                    f = a[r][col]
                    a[r] = [v - f * w for v, w in zip(a[r], a[col])]
        return {o: [a[off[o] + r][n] for r in range(self.sizes[o])] for o in names}

    def reference_solution(self, ext: dict[str, list[float]]) -> dict[str, list[float]]:
        """High-accuracy solution of a (non-linear) contractive system: 200 plain Jacobi sweeps in floats."""
        data = {k: [float(t) for t in v] for k, v in ext.items()}
        for o in self.outputs:
            data[o] = [0.0] * self.sizes[o]
        for _ in range(200):
            new = {}
            for k in range(len(self.discs)):
                new.update(self.eval_disc(k, data, exact=False))
            data.update(new)
        return {o: data[o] for o in self.outputs}


# --------------------------------------------------------------------------- case generation


def _coef_row(rng: common.Rng, n_cols: int, budget: Fraction, den: int) -> list[Fraction]:
    """Random dyadic row with sum |a| <= budget."""
    if n_cols == 0:
        return []
    units = int(budget * den)
    row = [0] * n_cols
    for _ in range(rng.randint(1, max(1, units))):
        row[rng.randrange(n_cols)] += 1
    # keep the total within budget, random signs
    tot = sum(row)
    while tot > units:
        j = rng.randrange(n_cols)
        if row[j] > 0:
            row[j] -= 1
            tot -= 1
    return [Fraction(rng.pick([-1, 1]) * v, den) for v in row]


def gen_graph(rng: common.Rng, n: int, shape: str) -> list[list[int]]:
    """preds[k] = disciplines whose outputs discipline k reads (k in preds[k]: self-coupled)."""
    preds: list[set[int]] = [set() for _ in range(n)]
    if shape == "strong":
        perm = list(range(n))
        rng.shuffle(perm)
        for a, b in zip(perm, perm[1:] + perm[:1]):
            if a != b:
                preds[b].add(a)
        for _ in range(rng.randint(0, n)):
            a, b = rng.randrange(n), rng.randrange(n)
            if a != b:
                preds[b].add(a)
        if n == 1:
            preds[0].add(0)
    else:  # "mixed": several SCCs chained by weak couplings
        groups: list[list[int]] = []
        idx = list(range(n))
        rng.shuffle(idx)
        while idx:
            g = rng.pick([1, 1, 2, 2, 3])
            groups.append(idx[:g])
            idx = idx[g:]
        for g in groups:
            if len(g) > 1:
                for a, b in zip(g, g[1:] + g[:1]):
                    preds[b].add(a)
        for gi in range(1, len(groups)):
            src = rng.pick(groups[rng.randrange(gi)])
            preds[rng.pick(groups[gi])].add(src)
            if rng.chance(0.3):
                preds[rng.pick(groups[gi])].add(rng.pick(groups[rng.randrange(gi)]))
    if rng.chance(0.4):
        preds[rng.randrange(n)].add(rng.randrange(n))  # possibly a self-coupling
    if rng.chance(0.25):
        k = rng.randrange(n)
        preds[k].add(k)
    return [sorted(p) for p in preds]


def gen_system(rng: common.Rng, shape: str | None = None, kind: str | None = None) -> dict[str, Any]:
    n = rng.pick([2, 2, 3, 3, 4])
    shape = shape or rng.pick(["strong", "strong", "mixed"])
    kind = kind or rng.pick(["lin", "lin", "lin", "lin", "rat", "sin"])
    kbound = rng.pick([Fraction(1, 2), Fraction(1, 2), Fraction(1, 4), Fraction(1, 8)])
    den = rng.pick([8, 16, 32, 64])
    preds = gen_graph(rng, n, shape)
    sizes: dict[str, int] = {"x": rng.pick([1, 1, 2])}
    outs_of: list[list[str]] = []
    for k in range(n):
        names = [f"y{k}"]
        sizes[f"y{k}"] = rng.pick([1, 1, 2, 3])
        outs_of.append(names)
    discs = []
    for k in range(n):
        ins = [f"y{p}" for p in preds[k]]
        if rng.chance(0.6) or not ins:
            ins.append("x")
        outs = {}
        for o in outs_of[k]:
            m = sizes[o]
            cpl = [i for i in ins if i != "x"]
            mats: dict[str, list[list[str]]] = {i: [] for i in ins}
            for _ in range(m):
                ncols = sum(sizes[i] for i in cpl)
                row = _coef_row(rng, ncols, kbound, den)
                pos = 0
                for i in cpl:
                    mats[i].append([rat(a) for a in row[pos : pos + sizes[i]]])
                    pos += sizes[i]
                if "x" in ins:
                    mats["x"].append([rat(rng.dyadic(-2, 2, 2)) for _ in range(sizes["x"])])
            outs[o] = {"c": [rat(rng.dyadic(-4, 4, 2)) for _ in range(m)], "m": mats}
        discs.append({"name": f"D{k}", "kind": kind, "ins": ins, "outs": outs})
    # a pure post-processing output (weakly coupled discipline) sometimes
    if shape == "mixed" and rng.chance(0.5):
        k = len(discs)
        src = f"y{rng.randrange(n)}"
        sizes[f"y{k}"] = 1
        discs.append({
            "name": f"D{k}",
            "kind": kind,
            "ins": [src],
            "outs": {f"y{k}": {"c": [rat(rng.dyadic(-2, 2, 2))], "m": {src: [[rat(Fraction(1, 4))] * sizes[src]]}}},
        })
    order = list(range(len(discs)))
    rng.shuffle(order)
    return {"vars": sizes, "discs": discs, "order": order, "shape": shape, "kbound": rat(kbound)}


def gen_mda(rng: common.Rng, system: dict[str, Any], cls: str | None = None) -> dict[str, Any]:
    """Random MDA class and settings (inside the property's quantifier)."""
    cls = cls or rng.pick([
        "MDAJacobi", "MDAJacobi", "MDAGaussSeidel", "MDAGaussSeidel", "MDANewtonRaphson",
        "MDAQuasiNewton", "MDAGSNewton", "MDASequential", "MDAChain", "MDAChain", "MDAChain",
    ])
    kb = Fraction(system["kbound"])
    m: dict[str, Any] = {
        "cls": cls,
        "tol": rat(Fraction(1, 2 ** rng.pick([10, 16, 20, 24, 30, 36]))),
        "max_iter": rng.pick([60, 100]),
        "scaling": rng.pick(SCALINGS),
        "warm": rng.chance(0.3),
        "accel": "NoTransformation",
        "omega": "1",
    }
    if rng.chance(0.5):
        m["accel"] = rng.pick(ACCELS)
    if rng.chance(0.5):
        # relaxation x <- w G(x_n) + (1-w) x_n keeps a contraction when K (w + |1-w|) ... we stay where
        # |1-w| + w K < 1, i.e. the relaxed map is still a contraction in the sup norm
        cands = [Fraction(1, 2), Fraction(7, 10), Fraction(9, 10), Fraction(11, 10), Fraction(6, 5), Fraction(3, 2)]
        cands = [w for w in cands if abs(1 - w) + w * kb <= Fraction(7, 8)]
        m["omega"] = rat(rng.pick(cands))
    if cls == "MDAChain":
        m["inner"] = rng.pick(["MDAJacobi", "MDAGaussSeidel", "MDANewtonRaphson", "MDAQuasiNewton", "MDAGSNewton"])
    if cls == "MDASequential":
        m["seq"] = [rng.pick(["MDAJacobi", "MDAGaussSeidel"]), rng.pick(["MDAGaussSeidel", "MDANewtonRaphson", "MDAJacobi"])]
        m["seq_first_iter"] = rng.pick([1, 2, 3, 5])
    if cls == "MDAQuasiNewton" or m.get("inner") == "MDAQuasiNewton":
        m["method"] = rng.pick(["hybr", "hybr", "broyden1", "broyden2", "lm", "krylov", "df-sane"])
        m["use_gradient"] = rng.chance(0.5)
    if cls == "MDAGSNewton" or m.get("inner") == "MDAGSNewton":
        m["gs_iter"] = rng.pick([1, 2, 3])
    return m


def gen_case(rng: common.Rng, shape: str | None = None, kind: str | None = None, cls: str | None = None) -> dict[str, Any]:
    system = gen_system(rng, shape, kind)
    sizes = system["vars"]
    case = dict(system)
    case["mda"] = gen_mda(rng, system, cls)
    if system["shape"] != "strong" and case["mda"]["cls"] not in ("MDAJacobi", "MDAChain"):
        # The elementary MDAs other than MDAJacobi only resolve the strong couplings (MDANewtonRaphson even
        # rejects weakly coupled disciplines): systems with weakly coupled disciplines are solved through
        # MDAChain, which is what GEMSEO prescribes. Direct use is exercised by the probe stream only.
        m = case["mda"]
        inner = {"MDASequential": "MDAGaussSeidel"}.get(m["cls"], m["cls"])
        for k in ("seq", "seq_first_iter"):
            m.pop(k, None)
        m["inner"] = inner
        m["cls"] = "MDAChain"
    n_runs = 2 if case["mda"]["warm"] or rng.chance(0.2) else 1
    runs = []
    for _ in range(n_runs):
        run: dict[str, Any] = {"x": [rat(rng.dyadic(-4, 4, 2)) for _ in range(sizes["x"])]}
        if rng.chance(0.5):
            # explicit starting values of the couplings
            run["y0"] = {
                v: [rat(rng.dyadic(-8, 8, 1)) for _ in range(s)] for v, s in sizes.items() if v != "x" and rng.chance(0.7)
            }
        runs.append(run)
    case["runs"] = runs
    return case


# --------------------------------------------------------------------------- implementation side


def build_disciplines(case: dict[str, Any]):
    from harness.c06_disc import CplDisc

    sizes = case["vars"]
    discs = []
    for d in case["discs"]:
        outs = {
            o: ([float(Fraction(c)) for c in spec["c"]], {i: [[float(Fraction(a)) for a in row] for row in mat] for i, mat in spec["m"].items()})
            for o, spec in d["outs"].items()
        }
        discs.append(CplDisc(d["name"], {i: sizes[i] for i in d["ins"]}, outs, kind=d["kind"]))
    return discs


def _solver_settings(m: dict[str, Any]) -> dict[str, Any]:
    return {"acceleration_method": m["accel"], "over_relaxation_factor": float(Fraction(m["omega"]))}


def build_mda(case: dict[str, Any]):
    """Instantiate the disciplines (in the listed order) and the MDA of the case."""
    from gemseo.mda.factory import MDAFactory

    m = case["mda"]
    discs = build_disciplines(case)
    listed = [discs[k] for k in case["order"]]
    cls = m["cls"]
    base = {"tolerance": float(Fraction(m["tol"])), "max_mda_iter": int(m["max_iter"]), "warm_start": bool(m["warm"])}
    fac = MDAFactory()

    def qn(settings):
        settings.update({"method": m["method"], "use_gradient": bool(m["use_gradient"])})
        return settings

    if cls in SOLVER_CLASSES:
        mda = fac.create(cls, listed, **base, **_solver_settings(m))
    elif cls == "MDAQuasiNewton":
        mda = fac.create(cls, listed, **qn(dict(base)))
    elif cls == "MDAGSNewton":
        mda = fac.create(
            cls,
            listed,
            **base,
            gauss_seidel_settings={**_solver_settings(m)},
            newton_settings={**_solver_settings(m)},
        )
        # the first MDA of the sequence only performs a few sweeps
        mda.mda_sequence[0].settings.max_mda_iter = int(m["gs_iter"])
    elif cls == "MDASequential":
        first = fac.create(m["seq"][0], listed, **{**base, "max_mda_iter": int(m["seq_first_iter"])}, **_solver_settings(m))
        second = fac.create(m["seq"][1], listed, **base, **_solver_settings(m))
        mda = fac.create(cls, listed, mda_sequence=[first, second], **base)
    elif cls == "MDAChain":
        inner = m["inner"]
        if inner in SOLVER_CLASSES:
            inner_settings = _solver_settings(m)
        elif inner == "MDAQuasiNewton":
            inner_settings = qn({})
        else:
            inner_settings = {}
        mda = fac.create(cls, listed, **base, inner_mda_name=inner, inner_mda_settings=inner_settings)
    else:
        raise ValueError(cls)
    mda.scaling = m["scaling"]
    return mda, discs


def run_impl(case: dict[str, Any]) -> dict[str, Any]:
    """Run the real MDA on every run of the case; return the observable behaviour."""
    obs: dict[str, Any] = {"runs": []}
    try:
        mda, discs = build_mda(case)
    except Exception as e:  # noqa: BLE001
        obs["build_exc"] = common.exc_class(e) + ": " + repr(e)[:200]
        return obs
    sizes = case["vars"]
    for run in case["runs"]:
        inputs = {"x": np.array([float(Fraction(t)) for t in run["x"]])}
        for v, vals in run.get("y0", {}).items():
            if v in mda.io.input_grammar:
                inputs[v] = np.array([float(Fraction(t)) for t in vals])
        r: dict[str, Any] = {}
        n_hist = len(getattr(mda, "residual_history", []))
        try:
            out = mda.execute(inputs)
            r["out"] = {k: [float(t) for t in np.atleast_1d(out[k])] for k in sizes if k in out}
            nr = out.get(mda.NORMALIZED_RESIDUAL_NORM)
            r["normed"] = None if nr is None else float(nr[-1])
            r["history"] = [float(t) for t in mda.residual_history[n_hist:]]
            r["reported_normed"] = float(mda.normed_residual)
        except Exception as e:  # noqa: BLE001
            r["exc"] = common.exc_class(e) + ": " + repr(e)[:200]
            r["tb"] = common.short_tb(e)
        obs["runs"].append(r)
    obs["tolerance"] = float(mda.settings.tolerance)
    return obs


# --------------------------------------------------------------------------- oracle (property text)


def _num(v) -> Fraction | None:
    try:
        return F(v)
    except (ValueError, TypeError, OverflowError):
        return None


def case_class(case: dict[str, Any]) -> str:
    m = case["mda"]
    cls = m["cls"]
    if cls == "MDAChain":
        cls += "/" + m["inner"]
    if cls.endswith("MDAQuasiNewton"):
        return f"{cls}:{m['method']}"
    if cls == "MDASequential":
        cls += "/" + "+".join(m["seq"])
    relax = "relax" if Fraction(m["omega"]) != 1 else "norelax"
    return f"{cls}:{m['accel']}:{relax}"


def oracle(case: dict[str, Any], obs: dict[str, Any]) -> list[tuple[str, str]]:
    """Clauses of the property violated by the observed behaviour: list of (key, message)."""
    bad: list[tuple[str, str]] = []
    kc = case_class(case)
    if "build_exc" in obs:
        return [(f"{kc}:build-raises", f"the MDA cannot be built on a well-posed system: {obs['build_exc']}")]
    sysm = System(case)
    sizes = sysm.sizes
    tol = Fraction(case["mda"]["tol"])
    kb = sysm.lipschitz_bound()
    n_c = sum(sizes[o] for o in sysm.outputs)
    dmax = Fraction(0)
    prev_out: dict[str, list[Fraction]] | None = None
    for ridx, (run, r) in enumerate(zip(case["runs"], obs["runs"])):
        tag = f"run{ridx}"
        if "exc" in r:
            bad.append((f"{kc}:raises", f"{tag}: execute raised {r['exc']}"))
            prev_out = None
            continue
        ext = {"x": [Fraction(t) for t in run["x"]]}
        if sysm.linear:
            sol = sysm.exact_solution(ext)
        else:
            sol = {k: [F(t) for t in v] for k, v in sysm.reference_solution({"x": [float(t) for t in ext["x"]]}).items()}
        # starting points the algorithm may have used: zero defaults, explicit values, previous solution
        starts = [{o: [Fraction(0)] * sizes[o] for o in sysm.outputs}]
        if run.get("y0"):
            s = {o: [Fraction(0)] * sizes[o] for o in sysm.outputs}
            s.update({k: [Fraction(t) for t in v] for k, v in run["y0"].items()})
            starts.append(s)
        if prev_out is not None:
            starts.append(prev_out)
        for s in starts:
            for o in sysm.outputs:
                for a, b in zip(s[o], sol[o]):
                    dmax = max(dmax, abs(a - b))
        # generous upper bound of every residual scale of the code (see notes/C06.md)
        scale = Fraction(math.isqrt(n_c) + 1) * max(Fraction(1), (1 + kb) * dmax)
        bound = tol * scale
        out = r["out"]
        vals: dict[str, list[Fraction]] = {}
        missing = False
        for o in sysm.outputs:
            vs = [_num(t) for t in out.get(o, [])]
            if len(vs) != sizes[o] or any(v is None for v in vs):
                missing = True
            else:
                vals[o] = vs
        if missing:
            bad.append((f"{kc}:not-finite", f"{tag}: returned couplings are missing or not finite: { {o: out.get(o) for o in sysm.outputs} }"))
            prev_out = None
            continue
        ymax = max([abs(v) for vs in vals.values() for v in vs] + [Fraction(1)])
        slack = Fraction(1, 10**13) * ymax
        # clause 1: re-executing any discipline on the returned data reproduces the returned outputs
        data = dict(vals)
        data.update(ext)
        worst, where = Fraction(0), ""
        for k, d in enumerate(sysm.discs):
            if sysm.linear:
                res = sysm.eval_disc(k, data, exact=True)
            else:
                res = {o: [F(t) for t in v] for o, v in sysm.eval_disc(k, {i: [float(t) for t in v] for i, v in data.items()}, exact=False).items()}
            for o, v in res.items():
                for a, b in zip(v, vals[o]):
                    if abs(a - b) > worst:
                        worst, where = abs(a - b), f"{d['name']}.{o}"
        if not (worst <= bound + slack):
            bad.append((f"{kc}:residual", f"{tag}: re-executing {where} on the returned data changes it by {float(worst):.3e} > tol*scale = {float(bound):.3e}"))
        # clause 2: agreement with the exact solution: K/(1-K) <= 1 for K <= 1/2; factor 2 covers 1/(1-K)
        dist = max(abs(a - b) for o in sysm.outputs for a, b in zip(vals[o], sol[o]))
        ref_slack = slack if sysm.linear else slack + Fraction(1, 10**12)
        if not (dist <= 2 * bound + ref_slack):
            bad.append((f"{kc}:solution", f"{tag}: returned couplings are at distance {float(dist):.3e} from the exact solution > 2*tol*scale = {float(2 * bound):.3e}"))
        prev_out = vals
    return bad


# --------------------------------------------------------------------------- model side (Lean driver)

ACCEL_TOKEN = {"NoTransformation": "none", "Aitken": "aitken", "Secant": "secant", "AlternateDeltaSquared": "adsq"}
ALGO_TOKEN = {"MDAJacobi": "j", "MDAGaussSeidel": "g", "MDANewtonRaphson": "n"}
ACCEL_CAP = 7  # replay budget for the accelerated runs (exact rationals triple in size at every Aitken step)


def replayable(case: dict[str, Any]) -> bool:
    """Cases the Lean model replays: affine systems, elementary solver, rational acceleration formulas."""
    m = case["mda"]
    if any(d["kind"] != "lin" for d in case["discs"]):
        return False
    if m["cls"] not in ALGO_TOKEN or m["accel"] not in ACCEL_TOKEN:
        return False
    return m["cls"] == "MDAJacobi" or case["shape"] == "strong"


def protocol_lines(case: dict[str, Any]) -> list[str]:
    """`sys`, `cfg` and one `run` line per execution (flattened affine system, see Driver/C06.lean)."""
    sysm = System(case)
    sizes = sysm.sizes
    names = sorted(sysm.outputs)
    off, n = {}, 0
    for o in names:
        off[o] = n
        n += sizes[o]
    rows_coef: list[list[Fraction]] = []
    for o in names:
        spec = sysm.discs[sysm.out_owner[o]]["outs"][o]
        for r in range(sizes[o]):
            row = [Fraction(0)] * n
            for i, mat in spec["m"].items():
                if i in off:
                    for c, a in enumerate(mat[r]):
                        row[off[i] + c] += Fraction(a)
            rows_coef.append(row)
    discs = []
    for k in case["order"]:
        idx = [off[o] + r for o in sysm.discs[k]["outs"] for r in range(sizes[o])]
        discs.append(",".join(map(str, idx)))
    cpl = sysm.couplings
    res = [off[o] + r for o in cpl for r in range(sizes[o])]
    groups, pos = [], 0
    for o in cpl:
        groups.append(",".join(str(pos + r) for r in range(sizes[o])))
        pos += sizes[o]
    m = case["mda"]
    accelerated = m["accel"] != "NoTransformation"
    lines = [
        "sys " + ";".join(common.rats(r) for r in rows_coef) + " " + "|".join(discs),
        "cfg {} {} {} {} {} {} {} {} {} {}".format(
            ALGO_TOKEN[m["cls"]],
            ",".join(map(str, res)) or "[]",
            "|".join(groups) or "[]",
            ",".join(map(str, res)) or "[]",
            m["tol"],
            m["max_iter"],
            SCALINGS.index(m["scaling"]),
            m["omega"],
            ACCEL_TOKEN[m["accel"]],
            1 if m["warm"] else 0,
        ),
    ]
    for run in case["runs"]:
        x = [Fraction(t) for t in run["x"]]
        consts, start = [], []
        for o in names:
            spec = sysm.discs[sysm.out_owner[o]]["outs"][o]
            for r in range(sizes[o]):
                c = Fraction(spec["c"][r])
                if "x" in spec["m"]:
                    c += sum(Fraction(a) * t for a, t in zip(spec["m"]["x"][r], x))
                consts.append(c)
                y0 = run.get("y0", {}).get(o)
                start.append(Fraction(y0[r]) if y0 is not None else Fraction(0))
        fuel = ACCEL_CAP if accelerated else int(m["max_iter"]) + 2
        lines.append(f"run {fuel} {common.rats(consts)} {common.rats(start)}")
    return lines


def parse_run_answer(ans: str) -> dict[str, Any]:
    toks = ans.split(" ")
    if len(toks) != 5 or not toks[1].startswith("it="):
        return {"outcome": "bad:" + ans[:60]}

    def lst(t: str) -> list[Fraction]:
        t = t.split("=", 1)[1]
        return [] if t == "[]" else [Fraction(v) for v in t.split(",")]

    return {"outcome": toks[0], "it": int(toks[1][3:]), "hist": lst(toks[2]), "raw": lst(toks[3]), "out": lst(toks[4])}


def fsqrt(q: Fraction) -> float:
    """Float square root of a non-negative rational (correct to ~1e-15 relative)."""
    if q <= 0:
        return 0.0
    num, den = q.numerator, q.denominator
    # scale to keep 128 significant bits
    shift = max(0, 256 - (num.bit_length() - den.bit_length()))
    shift += shift % 2
    v = math.isqrt((num << shift) // den)
    return v / 2.0 ** (shift // 2) if shift // 2 < 1000 else float(Fraction(v, 2 ** (shift // 2)))


def compare_with_model(case: dict[str, Any], obs: dict[str, Any], answers: list[str]) -> list[str]:
    """Differences between the real MDA and the exact replay.

    Rounded stream: a normed residual of the code must equal the model's within
    `rel * model + noise`, where `rel` = 2^-30 (2^-20 with an acceleration: the extrapolation
    coefficients are quotients of differences of residuals) and `noise` = 2^-38 * (1 + max|y|) / scale is
    the rounding noise of a residual `G(y) - y` computed in floats, divided by the smallest scale the
    model used. The iteration count is compared only when no model residual is within that band of the
    tolerance.
    """
    diffs: list[str] = []
    m = case["mda"]
    accelerated = m["accel"] != "NoTransformation"
    rel = 2.0**-20 if accelerated else 2.0**-30
    tol = float(Fraction(m["tol"]))
    sysm = System(case)
    names = sorted(sysm.outputs)
    for ridx, (r, ans) in enumerate(zip(obs["runs"], answers)):
        mod = parse_run_answer(ans)
        tag = f"run{ridx}"
        if mod["outcome"].startswith("bad"):
            diffs.append(f"{tag}: driver answered {mod['outcome']}")
            break
        if "exc" in r:
            diffs.append(f"{tag}: code raised {r['exc']}, model: {mod['outcome']}")
            break
        ih = r["history"]
        if not all(math.isfinite(h) for h in ih):
            if mod["outcome"] != "nan":
                diffs.append(f"{tag}: non-finite residual history in the code, model: {mod['outcome']}")
            break
        if mod["outcome"] == "nan":
            diffs.append(f"{tag}: model divides by zero in the acceleration, code history finite")
            break
        ymax = max([abs(v) for o in names for v in r["out"].get(o, [0.0])] + [abs(float(v)) for v in mod["out"]] + [1.0])
        inv_scale = max([fsqrt(h / w) for h, w in zip(mod["hist"], mod["raw"]) if w > 0] + [1.0])
        noise = 2.0**-38 * (1 + ymax) * inv_scale * (8 if accelerated else 1)
        safe = True
        for k, (a, b) in enumerate(zip(ih, mod["hist"])):
            sb = fsqrt(b)
            band = rel * sb + noise
            if abs(sb - tol) <= 2 * band:
                safe = False
            if not abs(a - sb) <= band:
                diffs.append(f"{tag}: normed residual of iteration {k + 1}: code {a!r}, model {sb!r} (band {band:.2e})")
                break
        if diffs:
            break
        if mod["outcome"] == "capped":
            if len(ih) < len(mod["hist"]) and safe:
                diffs.append(f"{tag}: code stopped after {len(ih)} iterations, model still iterating after {len(mod['hist'])}")
                break
            # the state of the model after a capped run is not the state of the code: stop comparing
            break
        if safe and len(ih) != mod["it"]:
            diffs.append(f"{tag}: code performed {len(ih)} iterations, model {mod['it']} ({mod['outcome']})")
            break
        if len(ih) != mod["it"]:
            break  # decision within the rounding margin: later runs start from different states
        # returned data
        flat = [v for o in names for v in r["out"].get(o, [])]
        if len(flat) != len(mod["out"]):
            diffs.append(f"{tag}: returned data has {len(flat)} components, model {len(mod['out'])}")
            break
        for k, (a, b) in enumerate(zip(flat, mod["out"])):
            if not abs(a - float(b)) <= (rel + 2.0**-36) * max(abs(float(b)), 1.0) + noise:
                diffs.append(f"{tag}: returned component {k}: code {a!r}, model {float(b)!r}")
                break
        if diffs:
            break
    return diffs
