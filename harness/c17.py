"""C17 — MDO formulations are equivalent views of the same problem.

Cases: random well-posed coupled systems of 2-3 harness disciplines (harness/c17_disc.py) with
exact dyadic coefficients: affine, contractive couplings (max-norm of the coupling matrix <= 1/2),
affine or quadratic objective/constraint outputs, variable sizes 1-3 chosen asymmetric on purpose,
shared / local design variables, optional fixed parameters (discipline inputs outside the design
space), optional unused design variable, design-space order scrambled (couplings interleaved with
the design variables, alphabetical order of the couplings different from their design-space order),
several objective / constraint choices (function outputs, coupling outputs, multi-output
constraints), outputs declared linear or not (``is_linear`` branch of the formulations).

Every case is built through the public formulation factory as

* MDF with inner MDA in {MDAJacobi, MDAGaussSeidel, MDAChain} (tolerance 1e-14),
* IDF with normalize_constraints in {True, False} x start_at_equilibrium in {False, True},
* parallel IDF (``n_processes`` in {2, 3}; threads in every case, processes in about one case out of ten, observed in a fresh interpreter by harness/c17_proc.py)
  with and without start_at_equilibrium, the design point being the random current value of the design space
  (the harness disciplines' own default inputs are 0 or the fixed-parameter defaults, i.e. another point),
* DisciplinaryOpt when the system has no strong coupling (feed-forward listing order),

and ``formulation.optimization_problem.objective/constraints .evaluate()/.jac()`` are observed at
matching points: MDF/DisciplinaryOpt at x, IDF at (x, t) for arbitrary dyadic t (exact stream), at
the anchor (x0, y0) where the multidisciplinary solution is dyadic (exact stream: consistency
constraints must be exactly 0) and at (x, float(y*(x))) with y*(x) from an exact Fraction solve
(rounded stream).

Oracle (independent of the code and of the Lean model): closed forms over ``Fraction`` computed by
variable *name* from the specification of the system:  F(x, Y(x,t)), c = (Y(x,t) - t)/scale and
their partial derivatives for IDF;  F(x, y*(x)) and dF/dx = F_x + F_y (I-C)^-1 A for MDF and
DisciplinaryOpt; expected design-space variable names; the cross-formulation identity
d mdf/dx = idf_x - idf_t (c_t)^-1 c_x evaluated from IDF's *reported* Jacobians.
POSITIVE assertions only: exact stream `F(impl) == exact`; rounded stream
`|impl - exact| <= 2^-30 max(1,|exact|)` (MDA involved) or `2^-40` (no MDA, non-dyadic floats).

Correspondence with the Lean model (Driver/C17.lean): design-space composition, mask / unmask index
arithmetic, IDF function values and Jacobians (exact), MDF values and total derivatives (the model
checks the exact solution and sensitivity certificates supplied by the harness; rounded).

History streams (same function objects used repeatedly, as a driver does):

* every array returned by ``evaluate()`` / ``jac()`` is HELD by the harness while the same function objects are
  evaluated at the following points (in half of the cases the caller also passes the SAME input array object,
  updated in place); at the end each held array must still contain the numbers it contained when it was
  returned (keys ``*-returned-jacobian-overwritten`` / ``*-returned-value-overwritten``);
* one formulation of every case is run through ``DOEScenario`` (CustomDOE on the case's points,
  ``eval_jac=True``, ``normalize_design_space`` False in two cases out of three) and the values / gradients the
  problem's database holds for each point are judged by the same closed forms (keys ``doe-*``).

Representation streams (the property speaks of design points and of disciplines, not of their representation):

* the caller writes the design point in a float64 array, or (``xdtype`` of the case) in an int64 array when every
  coordinate is an integer (every case has an ``intpt`` point with integer coordinates), or in a float32 array when the
  point is exactly representable; the last points of every history are also installed as the current value of the
  problem's design space and observed through ``OptimizationProblem.evaluate_functions()`` without a design vector;
  design variables may be declared integer (all of them / some of them; their coordinates are then integers at every
  point): the formulations keep the same variables, the values and derivatives are the same closed forms;
* the harness disciplines hand their Jacobian blocks over dense or as SciPy sparse arrays built from the values
  (csr_array, csc_array, coo_matrix; exact zeros are not stored), and in 6 cases out of 10 a function output has a
  block ``2 Q diag(v - v0)`` that is exactly zero at the ``vanish`` point of the history (v = v0, v0 = 0 in half of
  the cases) after points where it is not (histogram key ``jacobian-block-exactly-zero-after-nonzero``).

Session streams (the property speaks of formulations of the same problem, not of the order in which a process builds them):

* the formulations of a case (4 MDF, 2-7 IDF, DisciplinaryOpt, the DOE scenario) are built from design spaces with the same
  names and sizes, either one after the other (each dropped before the next) or all first and ALIVE TOGETHER, their
  function objects being evaluated point by point in an interleaved, rotating order; build / first-evaluation order
  canonical (MDF first), reversed (IDF first) or mixed; each formulation is judged by the closed forms, which do not
  depend on any order; 40 % of the cases have a further discipline computing functions of design variables only (in most
  of them: of exactly the variables MDF selects, which sit elsewhere in IDF's design space);
* design variables (and fixed parameters) may be OPTIONAL inputs of the harness disciplines (in the input grammar, with a
  default, not in `required_names`): the design spaces, values and derivatives are the same closed forms;
* a failing input is confirmed in a fresh interpreter before it is written as a replay (the harness process has a history).

Out of scope (stated): BiLevel and other composite formulations, `differentiated_input_names_substitute`,
optimiser convergence.
"""

from __future__ import annotations

import copy
import json
import math
import os
import time
from fractions import Fraction
from typing import Any

import numpy as np

from harness import common
from harness.common import F
from harness.common import Result
from harness.common import rat

PID = "C17"
BOUND = Fraction(1, 2**30)  # rounded stream, an MDA is involved
EBOUND = Fraction(1, 2**40)  # rounded stream, no MDA (non-dyadic floats, non power-of-two scales)

TRUSTED_EXTRA = (
    "C17: the inner MDAs (C06) and the coupled derivatives (C07) are used as black boxes on the MDF side; the "
    "oracle compares their results with the exact rational solution up to 2^-30, so a non-converged MDA cannot pass",
    "C17: harness disciplines (harness/c17_disc.py) evaluate dyadic affine/quadratic maps exactly in float64",
    "C17: BiLevel/composite formulations and differentiated_input_names_substitute are not covered",
    "C17: parallel IDF with processes (use_threading=False) relies on fork(); it is formed in about 1 case out of 10, in a helper process (harness/c17_proc.py); a helper that does not answer within 300 s is a skipped configuration",
)

MDAS = ("MDAJacobi", "MDAGaussSeidel", "MDAChain")

# --------------------------------------------------------------------------- exact linear algebra


def P(s: Any) -> Fraction:
    return s if isinstance(s, Fraction) else Fraction(s)


def fzeros(r: int, c: int) -> list[list[Fraction]]:
    return [[Fraction(0)] * c for _ in range(r)]


def fmatvec(m, v):
    return [sum((a * b for a, b in zip(row, v)), Fraction(0)) for row in m]


def fmul(a, b):
    k = len(b)
    m = len(b[0]) if b else 0
    return [[sum((row[t] * b[t][j] for t in range(k)), Fraction(0)) for j in range(m)] for row in a]


def fadd(a, b):
    return [[x + y for x, y in zip(ra, rb)] for ra, rb in zip(a, b)]


def fsolve(a, b):
    """Solve a z = b over Fraction by Gauss-Jordan; None when singular. a: n x n, b: n x m."""
    n = len(a)
    m = len(b[0]) if b and b[0] else 0
    aug = [list(a[i]) + list(b[i]) for i in range(n)]
    for col in range(n):
        piv = next((r for r in range(col, n) if aug[r][col] != 0), None)
        if piv is None:
            return None
        aug[col], aug[piv] = aug[piv], aug[col]
        p = aug[col][col]
        aug[col] = [v / p for v in aug[col]]
        for r in range(n):
            if r != col and aug[r][col] != 0:
                f = aug[r][col]
                aug[r] = [x - f * y for x, y in zip(aug[r], aug[col])]
    return [row[n : n + m] for row in aug]


# --------------------------------------------------------------------------- the system of a case
# case = {
#   "ds":   [{"name", "size", "lb": [rat], "ub": [rat], "value": [rat] | None}, ...]   (design-space order)
#   "discs":[{"name", "ins": [[name, size], ...], "defaults": {name: [rat]},
#             "outs": [[name, {"const": [rat], "lin": {in: rows}, "quad": {in: rows}}], ...],
#             "declare_linear": [names]}]
#   "objective": name, "constraints": [[[names], "eq"|"ineq"], ...],
#   "points": [{"kind", "x": {design var: [rat]}, "t": {coupling: [rat]} | None}],
#   "topo": str }


def in_sizes(d) -> dict[str, int]:
    return {n: s for n, s in d["ins"]}


def out_names(d) -> list[str]:
    return [o for o, _ in d["outs"]]


def out_spec(d, o):
    for n, s in d["outs"]:
        if n == o:
            return s
    raise KeyError(o)


def all_inputs(case) -> set[str]:
    return {n for d in case["discs"] for n, _ in d["ins"]}


def all_outputs(case) -> set[str]:
    return {o for d in case["discs"] for o in out_names(d)}


def couplings(case) -> list[str]:
    """The inputs of disciplines that are also outputs of disciplines, alphabetically sorted."""
    return sorted(all_inputs(case) & all_outputs(case))


def producer(case, o: str):
    for d in case["discs"]:
        if o in out_names(d):
            return d
    raise KeyError(o)


def var_size(case, n: str) -> int:
    for v in case["ds"]:
        if v["name"] == n:
            return v["size"]
    for d in case["discs"]:
        for m, s in d["ins"]:
            if m == n:
                return s
        for o, spec in d["outs"]:
            if o == n:
                return len(spec["const"])
    raise KeyError(n)


def default_of(d, n: str) -> list[Fraction]:
    v = d.get("defaults", {}).get(n)
    if v is None:
        return [Fraction(0)] * in_sizes(d)[n]
    return [P(t) for t in v]


def disc_data(case, d, point: dict[str, list[Fraction]]) -> dict[str, list[Fraction]]:
    """Input data of a discipline: the point's values, the discipline defaults for the rest."""
    return {n: (point[n] if n in point else default_of(d, n)) for n, _ in d["ins"]}


def disc_eval(d, o: str, data) -> list[Fraction]:
    spec = out_spec(d, o)
    v = [P(c) for c in spec["const"]]
    for i, mat in spec.get("lin", {}).items():
        w = fmatvec([[P(a) for a in row] for row in mat], data[i])
        v = [a + b for a, b in zip(v, w)]
    for i, mat in spec.get("quad", {}).items():
        w = fmatvec([[P(a) for a in row] for row in mat], [t * t for t in data[i]])
        v = [a + b for a, b in zip(v, w)]
    return v


def disc_jac(d, o: str, i: str, data) -> list[list[Fraction]]:
    """d o / d i at the data (zero block when o does not depend on i, i an input of d)."""
    spec = out_spec(d, o)
    m = len(spec["const"])
    n = in_sizes(d)[i]
    j = fzeros(m, n)
    if i in spec.get("lin", {}):
        j = fadd(j, [[P(a) for a in row] for row in spec["lin"][i]])
    if i in spec.get("quad", {}):
        j = fadd(j, [[2 * P(a) * t for a, t in zip(row, data[i])] for row in spec["quad"][i]])
    return j


def exact_mda(case, x: dict[str, list[Fraction]]):
    """Exact multidisciplinary solution y*(x) and sensitivities W[(k, n)] = d y*_k / d n.

    x gives the values of the non-coupling variables that are not left at the discipline defaults.
    Returns (ystar: {coupling: [Fraction]}, W: {(coupling, var): rows}, dvars) or None when singular.
    """
    cpl = couplings(case)
    off, tot = {}, 0
    for k in cpl:
        off[k] = tot
        tot += var_size(case, k)
    dvars = [n for n in x]
    a = [[Fraction(int(r == c)) for c in range(tot)] for r in range(tot)]
    b = fzeros(tot, 1)
    nx = {n: len(x[n]) for n in dvars}
    xoff, xt = {}, 0
    for n in dvars:
        xoff[n] = xt
        xt += nx[n]
    bx = fzeros(tot, xt)
    for k in cpl:
        d = producer(case, k)
        spec = out_spec(d, k)
        if spec.get("quad"):
            raise ValueError("coupling outputs must be affine")
        r0 = off[k]
        for r, c in enumerate(spec["const"]):
            b[r0 + r][0] += P(c)
        for i, mat in spec.get("lin", {}).items():
            for r, row in enumerate(mat):
                for c, aij in enumerate(row):
                    aij = P(aij)
                    if i in off:
                        a[r0 + r][off[i] + c] -= aij
                    else:
                        val = x[i][c] if i in x else default_of(d, i)[c]
                        b[r0 + r][0] += aij * val
                        if i in x:
                            bx[r0 + r][xoff[i] + c] += aij
    sol = fsolve(a, [b[r] + bx[r] for r in range(tot)])
    if sol is None:
        return None
    ystar = {k: [sol[off[k] + r][0] for r in range(var_size(case, k))] for k in cpl}
    W = {}
    for k in cpl:
        for n in dvars:
            W[k, n] = [[sol[off[k] + r][1 + xoff[n] + c] for c in range(nx[n])] for r in range(var_size(case, k))]
    return ystar, W, dvars


def design_names(case) -> list[str]:
    """Design-space variables that are not couplings, design-space order."""
    cpl = set(couplings(case))
    return [v["name"] for v in case["ds"] if v["name"] not in cpl]


def used_design_names(case) -> list[str]:
    ins = all_inputs(case)
    return [n for n in design_names(case) if n in ins]


def cons_fmt(c) -> tuple[Fraction, bool]:
    """(value a, positive) of a user constraint: c(x) = a, c(x) <= a or (positive) c(x) >= a."""
    a = P(c[2]) if len(c) > 2 else Fraction(0)
    pos = bool(c[3]) if len(c) > 3 else False
    return a, pos


def apply_fmt(c, val, jac):
    """Standard form stored by the problem: c - a (= 0 or <= 0), a - c <= 0 for a positive inequality."""
    a, pos = cons_fmt(c)
    if pos:
        return [a - v for v in val], [[-t for t in row] for row in jac]
    return [v - a for v in val], jac


def relevant_disciplines(case) -> set[str]:
    """Disciplines that contribute to the objective or to a constraint (directly or through couplings)."""
    req = {case["objective"], *(o for c in case["constraints"] for o in c[0])}
    rel = {d["name"] for d in case["discs"] if req & set(out_names(d))}
    changed = True
    while changed:
        changed = False
        needed = {n for d in case["discs"] if d["name"] in rel for n, _ in d["ins"]}
        for d in case["discs"]:
            if d["name"] not in rel and needed & set(out_names(d)):
                rel.add(d["name"])
                changed = True
    return rel


def depends_on_design(case, output: str) -> bool:
    """The output depends (through the discipline graph) on at least one design variable of the design space."""
    dn = set(design_names(case))
    seen: set[str] = set()
    todo = [output]
    while todo:
        o = todo.pop()
        if o in seen:
            continue
        seen.add(o)
        try:
            d = producer(case, o)
        except KeyError:
            continue
        for n, _ in d["ins"]:
            if n in dn:
                return True
            todo.append(n)
    return False


def is_feed_forward(case) -> bool:
    """No discipline reads an output of itself or of a later discipline (listing order)."""
    seen: set[str] = set()
    outs_after = [set(out_names(d)) for d in case["discs"]]
    for k, d in enumerate(case["discs"]):
        later = set().union(*outs_after[k:])
        if any(n in later for n, _ in d["ins"]):
            return False
        seen |= outs_after[k]
    return True


# --------------------------------------------------------------------------- expected (closed forms by name)


def layout(case, names: list[str]) -> tuple[dict[str, int], int]:
    off, tot = {}, 0
    for n in names:
        off[n] = tot
        tot += var_size(case, n)
    return off, tot


def expect_idf_function(case, outs: list[str], names: list[str], point) -> tuple[list[Fraction], list[list[Fraction]]]:
    """Value and Jacobian (columns by design-space variable) of discipline outputs at an IDF point."""
    d = producer(case, outs[0])
    data = disc_data(case, d, point)
    off, tot = layout(case, names)
    val, jac = [], []
    for o in outs:
        val += disc_eval(d, o, data)
        rows = fzeros(len(out_spec(d, o)["const"]), tot)
        for n in names:
            if n in in_sizes(d):
                blk = disc_jac(d, o, n, data)
                for r, row in enumerate(blk):
                    for c, a in enumerate(row):
                        rows[r][off[n] + c] = a
        jac += rows
    return val, jac


def coupling_scale(case, k: str) -> list[Fraction]:
    for v in case["ds"]:
        if v["name"] == k:
            return [abs(P(u) - P(l)) for l, u in zip(v["lb"], v["ub"])]
    raise KeyError(k)


def expect_consistency(case, d, names: list[str], point, normalize: bool):
    """(Y_k(x,t) - t_k) / scale_k for the output couplings of d (alphabetical order) and its Jacobian."""
    cpl = set(couplings(case))
    oc = sorted(o for o in out_names(d) if o in cpl)
    data = disc_data(case, d, point)
    off, tot = layout(case, names)
    val, jac = [], []
    for k in oc:
        y = disc_eval(d, k, data)
        sc = coupling_scale(case, k) if normalize else [Fraction(1)] * len(y)
        val += [(a - b) / s for a, b, s in zip(y, point[k], sc)]
        rows = fzeros(len(y), tot)
        for n in names:
            if n in in_sizes(d):
                blk = disc_jac(d, k, n, data)
                for r, row in enumerate(blk):
                    for c, a in enumerate(row):
                        rows[r][off[n] + c] += a
        for r in range(len(y)):
            rows[r][off[k] + r] -= 1
        jac += [[a / sc[r] for a in row] for r, row in enumerate(rows)]
    return val, jac


def expect_mdf_function(case, outs: list[str], names: list[str], x, sol) -> tuple[list[Fraction], list[list[Fraction]]]:
    """F(x, y*(x)) and dF/dx = F_x + F_y dy*/dx (columns by variable of `names`)."""
    ystar, W, _ = sol
    d = producer(case, outs[0])
    point = {**x, **ystar}
    data = disc_data(case, d, point)
    off, tot = layout(case, names)
    val, jac = [], []
    for o in outs:
        val += disc_eval(d, o, data)
        m = len(out_spec(d, o)["const"])
        rows = fzeros(m, tot)
        for n in names:
            blk = fzeros(m, var_size(case, n))
            if n in in_sizes(d):
                blk = fadd(blk, disc_jac(d, o, n, data))
            for k in ystar:
                if k in in_sizes(d):
                    blk = fadd(blk, fmul(disc_jac(d, o, k, data), W[k, n]))
            for r, row in enumerate(blk):
                for c, a in enumerate(row):
                    rows[r][off[n] + c] = a
        jac += rows
    return val, jac


# --------------------------------------------------------------------------- generator


def _dy(rng, lo: int, hi: int, den: int) -> Fraction:
    return Fraction(rng.randint(lo * den, hi * den), den)


def _block(rng, r: int, c: int, dense: float, lo: int, hi: int, den: int):
    return [[(_dy(rng, lo, hi, den) if rng.chance(dense) else Fraction(0)) for _ in range(c)] for _ in range(r)]


def _rows(m) -> list[list[str]]:
    return [[rat(a) for a in row] for row in m]


TOPOS = ("s2", "s2", "s2", "s3ring", "s3full", "s2w", "weak2", "weak3", "single")


def gen_case(rng: common.Rng, topo: str | None = None) -> dict[str, Any]:
    topo = topo or rng.pick(TOPOS)
    n = 1 if topo == "single" else 2 if topo in ("s2", "weak2") else 3
    # coupling outputs
    cout: list[list[str]] = []
    for i in range(1, n + 1):
        names = [f"y{i}"]
        if rng.chance(0.35):
            names.append(rng.pick([f"a{i}", f"z{i}"]))
        rng.shuffle(names)
        cout.append(names)
    # who reads whom
    reads: list[list[int]] = [[] for _ in range(n)]
    if topo == "s2":
        reads = [[1], [0]]
    elif topo == "s3ring":
        reads = [[2], [0], [1]]
    elif topo == "s3full":
        reads = [[1, 2], [0, 2], [0, 1]]
        for i in range(3):
            if rng.chance(0.4):
                reads[i].remove(rng.pick(reads[i]))
    elif topo == "s2w":
        reads = [[1], [0], rng.pick([[0], [1], [0, 1]])]
        cout[2] = []  # D3 only computes functions
    elif topo == "weak2":
        reads = [[], [0]]
        cout[1] = []
    elif topo == "single":
        cout[0] = []
    elif topo == "weak3":
        reads = [[], [0], rng.pick([[1], [0, 1]])]
        cout[2] = []
    # a further discipline that computes functions of the design variables only (no coupling in, no coupling out):
    # in IDF its functions select design variables that sit among the couplings in the design space, in MDF /
    # DisciplinaryOpt the same names are the whole (or a part of the) design space
    design_only = None
    if rng.chance(0.4):
        design_only = n
        n += 1
        cout.append([])
        reads.append([])
    size: dict[str, int] = {}
    for names in cout:
        for k in names:
            size[k] = rng.pick([1, 1, 2, 3])
    cin: list[list[str]] = []
    for i in range(n):
        got: list[str] = []
        for j in reads[i]:
            sub = [k for k in cout[j] if rng.chance(0.75)] or [rng.pick(cout[j])]
            got += sub
        cin.append(got)
    # design variables
    size["xs"] = rng.pick([1, 2, 2, 3])
    shared_by = [i for i in range(n) if rng.chance(0.7)] or [rng.randrange(n)]
    dins: list[list[str]] = [["xs"] if i in shared_by else [] for i in range(n)]
    if rng.chance(0.3):
        size["xt"] = rng.pick([1, 2])
        for i in range(n):
            if rng.chance(0.6):
                dins[i].append("xt")
        if not any("xt" in d for d in dins):
            dins[rng.randrange(n)].append("xt")
    for i in range(n):
        if rng.chance(0.7):
            size[f"x{i + 1}"] = rng.pick([1, 2, 3])
            dins[i].append(f"x{i + 1}")
    params: list[list[str]] = [[] for _ in range(n)]
    for i in range(n):
        if rng.chance(0.2):
            size[f"p{i + 1}"] = rng.pick([1, 2])
            params[i].append(f"p{i + 1}")
    if design_only is not None and rng.chance(0.6):
        # ... reading every design variable read by the coupled disciplines (the names MDF selects)
        dins[design_only] = sorted({v for d in dins for v in d})
    for i in range(n):
        if not (dins[i] or cin[i]):
            dins[i].append("xs")
    # optional inputs: design variables (and fixed parameters) that the input grammar does not require
    opt_mode = rng.pick(["none", "none", "some", "some", "all"])
    # anchor: the exact solution is dyadic at (x0, y0)
    cpl_all = sorted({k for got in cin for k in got})
    dvars = sorted({v for d in dins for v in d})
    # integer design variables (never couplings): none / all of them / some of them
    int_mode = rng.pick(["none", "none", "none", "none", "all", "some", "some"])
    ints = set(dvars) if int_mode == "all" else {v for v in dvars if rng.chance(0.5)} if int_mode == "some" else set()

    def coord(v: str, lo: int = -2, hi: int = 2) -> Fraction:
        return Fraction(rng.randint(lo, hi)) if v in ints else _dy(rng, lo, hi, 4)

    x0 = {v: [coord(v) for _ in range(size[v])] for v in dvars}
    y0 = {k: [_dy(rng, -2, 2, 4) for _ in range(size[k])] for k in cpl_all}
    discs = []
    fnames: list[str] = []
    gnames: list[str] = []
    vanish: list[dict[str, Any]] = []
    for i in range(n):
        ins = dins[i] + cin[i] + params[i]
        rng.shuffle(ins)
        defaults = {p: [rat(_dy(rng, -2, 2, 2)) for _ in range(size[p])] for p in params[i]}
        outs: list[list[Any]] = []
        # couplings: affine, contractive (each row: sum of |coupling coefficients| <= 1/2)
        for k in cout[i]:
            m = size[k]
            lin: dict[str, Any] = {}
            ncpl = sum(size[c] for c in cin[i])
            for v in ins:
                if v in cin[i]:
                    lin[v] = [[Fraction(0)] * size[v] for _ in range(m)]
                else:
                    blk = _block(rng, m, size[v], 0.8, -2, 2, 4)
                    if any(a != 0 for row in blk for a in row) or rng.chance(0.5):
                        lin[v] = blk
            for r in range(m):
                budget = 8  # sixteenths: 8/16 = 1/2
                cells = [(c, col) for c in cin[i] for col in range(size[c])]
                rng.shuffle(cells)
                for c, col in cells:
                    if budget <= 0 or not rng.chance(0.8 if ncpl <= 3 else 0.5):
                        continue
                    mag = rng.randint(1, min(4, budget))
                    budget -= mag
                    lin[c][r][col] = Fraction(mag if rng.chance(0.5) else -mag, 16)
            for c in cin[i]:
                # a coupling input must really be read by at least one coupling or function output; keep zero blocks
                # (structural coupling with a zero coefficient) possible but rare
                pass
            const_ = [Fraction(0)] * m
            outs.append([k, {"const": const_, "lin": lin, "quad": {}}])
        # function outputs
        def fun(m: int, quadratic: bool):
            lin = {v: _block(rng, m, size[v], 0.8, -2, 2, 4) for v in ins if rng.chance(0.8)}
            quad = {v: _block(rng, m, size[v], 0.7, -1, 1, 4) for v in ins if rng.chance(0.5)} if quadratic else {}
            quad = {v: b for v, b in quad.items() if any(a != 0 for row in b for a in row)}
            return {"const": [_dy(rng, -2, 2, 4) for _ in range(m)], "lin": lin, "quad": quad}

        if rng.chance(0.85) or (i == n - 1 and not fnames):
            outs.append([f"f{i + 1}", fun(1, rng.chance(0.6))])
            fnames.append(f"f{i + 1}")
        if rng.chance(0.7):
            outs.append([f"g{i + 1}", fun(rng.pick([1, 2, 3]), rng.chance(0.5))])
            gnames.append(f"g{i + 1}")
        # a Jacobian block that vanishes at some points: d o / d v = 2 Q diag(v - z0) (z0 = 0: proportional to v)
        fouts = [sp for o, sp in outs if o not in cout[i]]
        movable = [v for v in ins if v not in params[i]]
        if fouts and movable and rng.chance(0.6):
            sp = rng.pick(fouts)
            v = rng.pick([w for w in movable if w in dins[i]] or movable) if rng.chance(0.8) else rng.pick(movable)
            m = len(sp["const"])
            q = sp["quad"].get(v)
            if q is None or not any(a != 0 for row in q for a in row):
                q = _block(rng, m, size[v], 0.9, -1, 1, 4)
                if not any(a != 0 for row in q for a in row):
                    q[0][0] = Fraction(1, 2)
            z0 = [Fraction(0)] * size[v] if rng.chance(0.5) else [coord(v) if v in x0 else _dy(rng, -2, 2, 4) for _ in range(size[v])]
            sp["quad"][v] = q
            lin_v = [[-2 * a * z for a, z in zip(row, z0)] for row in q]
            if any(a != 0 for row in lin_v for a in row) or rng.chance(0.5):
                sp["lin"][v] = lin_v
            else:
                sp["lin"].pop(v, None)
            vanish.append({"disc": f"D{i + 1}", "out": next(o for o, t in outs if t is sp), "var": v, "z0": [rat(z) for z in z0]})
        rng.shuffle(outs)
        lin_outs = [o for o, s in outs if not s["quad"]]
        declare = []
        mode = rng.pick(["none", "none", "all", "some"])
        if mode == "all":
            declare = lin_outs
        elif mode == "some":
            declare = [o for o in lin_outs if rng.chance(0.5)]
        optional = [v for v in ins if (v in dins[i] and (opt_mode == "all" or (opt_mode == "some" and rng.chance(0.5))))
                    or (v in params[i] and opt_mode != "none" and rng.chance(0.3))]
        discs.append({"name": f"D{i + 1}", "ins": [[v, size[v]] for v in ins], "defaults": defaults, "outs": outs,
                      "declare_linear": declare, "optional": optional,
                      "jac_storage": rng.pick(["dense", "dense", "csr", "csr", "csc", "coo", "mixed", "mixed"])})
    case: dict[str, Any] = {"topo": topo, "discs": discs, "vanish": vanish}
    if design_only is not None:
        case["design_only"] = f"D{design_only + 1}"
    # constants of the couplings so that y0 solves the system at x0
    point0 = {**x0, **y0}
    for d in discs:
        for o, spec in d["outs"]:
            if o in size and o in y0:
                data = {v: (point0[v] if v in point0 else default_of(d, v)) for v, _ in d["ins"]}
                cur = disc_eval(d, o, data)
                spec["const"] = [c + (t - v) for c, t, v in zip(spec["const"], y0[o], cur)]
            elif o in size and o not in y0:
                spec["const"] = [_dy(rng, -2, 2, 4) for _ in spec["const"]]
    # stringify
    for d in discs:
        for _, spec in d["outs"]:
            spec["const"] = [rat(c) for c in spec["const"]]
            spec["lin"] = {v: _rows(b) for v, b in spec["lin"].items()}
            spec["quad"] = {v: _rows(b) for v, b in spec["quad"].items()}
    # design space (scrambled order), per-component bounds
    names = dvars + cpl_all
    if rng.chance(0.15):
        names.append("u")
        size["u"] = rng.pick([1, 2])
        if int_mode == "all" or (int_mode == "some" and rng.chance(0.5)):
            ints.add("u")
    rng.shuffle(names)
    has_value = rng.chance(0.85)
    pow2 = rng.chance(0.7)
    ds = []
    for v in names:
        m = size[v]
        if v in y0:
            widths = [rng.pick([8, 16, 32] if pow2 else [8, 16, 12, 24, 10, 20]) for _ in range(m)]
            lbs = [Fraction(-w, rng.pick([2, 4])) for w in widths]
            lbs = [min(lb, Fraction(-3)) for lb in lbs]
            ubs = [lb + w for lb, w in zip(lbs, widths)]
        else:
            lbs = [Fraction(-4)] * m
            ubs = [Fraction(rng.pick([4, 4, 8]))] * m
        val = None
        if has_value:
            val = [rat(coord(v)) for _ in range(m)]
        ds.append({"name": v, "size": m, "lb": [rat(a) for a in lbs], "ub": [rat(a) for a in ubs], "value": val})
        if v in ints:
            ds[-1]["type"] = "integer"
    case["ds"] = ds
    # objective and constraints
    cands_obj = list(fnames)
    scalar_cpl = [k for k in cpl_all if size[k] == 1]
    if scalar_cpl and (rng.chance(0.12) or not cands_obj):
        cands_obj = [rng.pick(scalar_cpl)]
    if not cands_obj:
        # make a scalar function on the last discipline
        d = discs[-1]
        d["outs"].append(["f9", {"const": ["1/2"], "lin": {d["ins"][0][0]: [["1"] * d["ins"][0][1]]}, "quad": {}}])
        cands_obj = ["f9"]
    case["objective"] = rng.pick(cands_obj)
    cons: list[list[Any]] = []
    pool = list(gnames)
    rng.shuffle(pool)
    for g in pool[: rng.pick([0, 1, 1, 2, 2])]:
        cons.append([[g], rng.pick(["ineq", "eq"])])
    if cpl_all and rng.chance(0.2):
        cons.append([[rng.pick(cpl_all)], rng.pick(["ineq", "eq"])])
    if rng.chance(0.2):
        d = rng.pick(discs)
        ons = out_names(d)
        if len(ons) >= 2:
            pair = rng.sample(ons, 2)
            cons.append([pair, "ineq"])
    for c in cons:
        if rng.chance(0.4):
            c.append(rat(_dy(rng, -2, 2, 4)))
            c.append(c[1] == "ineq" and rng.chance(0.5))
    case["constraints"] = cons
    case["observables"] = []
    if rng.chance(0.3):
        d = rng.pick(discs)
        ons = out_names(d)
        case["observables"].append(rng.sample(ons, min(len(ons), rng.pick([1, 1, 2]))))
    # well-posed optimisation problem: every discipline contributes to the objective or to a constraint
    # (otherwise some design variable has no influence at all on the problem)
    for d in discs:
        if d["name"] not in relevant_disciplines(case):
            own = [o for o in out_names(d) if o not in cpl_all]
            if not own:
                v, m = d["ins"][0]
                d["outs"].append([f"h{d['name'][1:]}", {"const": ["1/4"], "lin": {v: [["1/2"] * m]}, "quad": {}}])
                own = [d["outs"][-1][0]]
            cons.append([[rng.pick(own)], rng.pick(["ineq", "eq"])])
    # points
    pts = [{"kind": "anchor", "x": {v: [rat(a) for a in x0[v]] for v in x0}, "t": {k: [rat(a) for a in y0[k]] for k in y0}}]
    for _ in range(2):
        x = {v: [rat(coord(v)) for _ in range(size[v])] for v in dvars}
        t = {k: [rat(_dy(rng, -3, 3, 4)) for _ in range(size[k])] for k in cpl_all}
        pts.append({"kind": "arb", "x": x, "t": t})
    # perturbation of the anchor in one coupling component
    if cpl_all:
        k = rng.pick(cpl_all)
        t = {c: [rat(a) for a in y0[c]] for c in y0}
        j = rng.randrange(size[k])
        t[k][j] = rat(y0[k][j] + rng.pick([Fraction(1, 4), Fraction(-1, 2), Fraction(1)]))
        pts.append({"kind": "perturbed", "x": pts[0]["x"], "t": t})
    # a point with integer coordinates (the caller may write it as an integer array)
    pts.append({"kind": "intpt", "x": {v: [rat(Fraction(rng.randint(-2, 2))) for _ in range(size[v])] for v in dvars},
                "t": {k: [rat(Fraction(rng.randint(-3, 3))) for _ in range(size[k])] for k in cpl_all}})
    # a point where the vanishing Jacobian blocks are exactly zero, after the points where they are not
    if vanish:
        p = copy.deepcopy(pts[1])
        p["kind"] = "vanish"
        for e in vanish:
            (p["x"] if e["var"] in p["x"] else p["t"])[e["var"]] = list(e["z0"])
        pts.append(p)
    if "u" in size:
        for p in pts:
            p["x"]["u"] = [rat(coord("u")) for _ in range(size["u"])]
    case["points"] = pts
    # the dtype of the arrays in which the caller writes the design points: float64, or int64 for the points
    # whose coordinates are all integers, or float32 for the points that float32 represents exactly
    case["xdtype"] = rng.pick(["float64", "float64", "int", "int", "int", "float32"])
    # how the functions are used: caller's input array (fresh copy per call / one array updated in place),
    # parallel IDF (number of processes, which normalisation goes with which start, threads or processes),
    # which formulation is run through a DOE scenario (and on which kind of design space)
    case["xmode"] = rng.pick(["fresh", "shared"])
    case["par"] = {"n": rng.pick([2, 2, 3]), "norm0": rng.chance(0.5), "procs": rng.chance(1 / 10)}
    case["doe"] = {"pick": rng.randrange(12), "normalize": rng.chance(1 / 3)}
    case["jacobi_threads"] = rng.chance(0.25)
    # how the formulations of the case live together in the process: built and used one after the other (each one
    # dropped before the next is built) or all built first and alive together, their functions being evaluated point
    # by point in an interleaved order; the order in which they are built (and first evaluated): MDF first, IDF
    # first (reversed), or mixed
    case["session"] = {"alive": rng.chance(0.6), "order": rng.pick(["fwd", "rev", "mix"]),
                       "keys": [rng.randrange(1000) for _ in range(16)], "rot": rng.pick([0, 1, 1, 2]),
                       "doe_first": rng.chance(0.5)}
    return case


def valid_case(case) -> bool:
    """Independent in-scope predicate (re-checked on every shrunk / neighbour case)."""
    try:
        cpl = couplings(case)
        outs = [o for d in case["discs"] for o in out_names(d)]
        if len(outs) != len(set(outs)):
            return False
        dsn = [v["name"] for v in case["ds"]]
        if len(dsn) != len(set(dsn)):
            return False
        for d in case["discs"]:
            ins = in_sizes(d)
            if set(ins) & set(out_names(d)):
                return False  # self-coupled disciplines are not generated
            for o, spec in d["outs"]:
                m = len(spec["const"])
                if m < 1:
                    return False
                for part in ("lin", "quad"):
                    for v, blk in spec.get(part, {}).items():
                        if v not in ins or len(blk) != m or any(len(r) != ins[v] for r in blk):
                            return False
                if o in cpl and spec.get("quad"):
                    return False
        # sizes agree everywhere
        for v in case["ds"]:
            if len(v["lb"]) != v["size"] or len(v["ub"]) != v["size"]:
                return False
            if v["value"] is not None and len(v["value"]) != v["size"]:
                return False
            if any(not (P(l) < P(u)) for l, u in zip(v["lb"], v["ub"])):
                return False
            for d in case["discs"]:
                if v["name"] in in_sizes(d) and in_sizes(d)[v["name"]] != v["size"]:
                    return False
            if v["name"] in all_outputs(case) and var_size(case, v["name"]) != v["size"]:
                return False
            if v["name"] in all_outputs(case) and v["name"] not in cpl:
                return False
            if v.get("type", "float") not in ("float", "integer"):
                return False
            if v.get("type") == "integer":
                # an integer variable is a design variable (never a computed coupling) with integer bounds and values
                if v["name"] in cpl:
                    return False
                if any(P(a).denominator != 1 for a in [*v["lb"], *v["ub"], *(v["value"] or [])]):
                    return False
                if any(P(a).denominator != 1 for p in case["points"] for a in p["x"].get(v["name"], [])):
                    return False
        if case.get("xdtype", "float64") not in ("float64", "int", "float32"):
            return False
        if any(d.get("jac_storage", "dense") not in ("dense", "csr", "csc", "coo", "mixed") for d in case["discs"]):
            return False
        for d in case["discs"]:
            # optional inputs are inputs of the discipline that are not computed by another discipline
            opt = d.get("optional", [])
            if len(set(opt)) != len(opt) or any(v not in in_sizes(d) or v in cpl for v in opt):
                return False
        sess = case.get("session") or {}
        if sess.get("order", "fwd") not in ("fwd", "rev", "mix") or len(sess.get("keys", [0] * 16)) < 16:
            return False
        # contractive couplings: max-norm of the coupling matrix <= 1/2
        for k in cpl:
            d = producer(case, k)
            spec = out_spec(d, k)
            for r in range(len(spec["const"])):
                s = sum((abs(P(a)) for c in spec.get("lin", {}) if c in cpl for a in spec["lin"][c][r]), Fraction(0))
                if not s <= Fraction(1, 2):
                    return False
        # the objective is scalar, every function comes from one discipline
        if var_size(case, case["objective"]) != 1:
            return False
        for c in case["constraints"]:
            names, ty = c[0], c[1]
            if ty not in ("eq", "ineq") or not names:
                return False
            if cons_fmt(c)[1] and ty != "ineq":
                return False
            d = producer(case, names[0])
            if any(o not in out_names(d) for o in names) or len(set(names)) != len(names):
                return False
        for names in case.get("observables", []):
            if not names or len(set(names)) != len(names):
                return False
            d = producer(case, names[0])
            if any(o not in out_names(d) for o in names):
                return False
        if relevant_disciplines(case) != {d["name"] for d in case["discs"]}:
            return False
        # no degenerate function: the objective and every constraint depend on some design variable
        if not all(depends_on_design(case, o) for o in [case["objective"], *(o for c in case["constraints"] for o in c[0])]):
            return False
        dsn_design = set(design_names(case))
        for d in case["discs"]:
            outs_d = dict((o, sp) for o, sp in d["outs"])
            for o in d.get("declare_linear", []):
                if o not in outs_d or outs_d[o].get("quad"):
                    return False
        dn = set(design_names(case))
        for p in case["points"]:
            if set(p["x"]) != dn:
                return False
            if any(len(p["x"][v]) != var_size(case, v) for v in p["x"]):
                return False
            if p["t"] is not None:
                if any(k in dsn and k not in p["t"] for k in cpl):
                    return False
                if any(len(p["t"][k]) != var_size(case, k) for k in p["t"]):
                    return False
        return True
    except (KeyError, ValueError, ZeroDivisionError, TypeError, IndexError):
        return False


# --------------------------------------------------------------------------- implementation side


def build_discs(case):
    from harness.c17_disc import QDisc

    out = []
    for d in case["discs"]:
        outs = {
            o: {
                "const": [float(P(c)) for c in s["const"]],
                "lin": {v: [[float(P(a)) for a in r] for r in b] for v, b in s.get("lin", {}).items()},
                "quad": {v: [[float(P(a)) for a in r] for r in b] for v, b in s.get("quad", {}).items()},
            }
            for o, s in d["outs"]
        }
        defaults = {k: [float(P(a)) for a in v] for k, v in d.get("defaults", {}).items()}
        out.append(QDisc(d["name"], {n: s for n, s in d["ins"]}, outs, d.get("declare_linear", ()), defaults,
                         jac_storage=d.get("jac_storage", "dense"), optional=d.get("optional", ())))
    return out


def build_ds(case):
    from gemseo.algos.design_space import DesignSpace

    ds = DesignSpace()
    for v in case["ds"]:
        ds.add_variable(
            v["name"],
            size=v["size"],
            lower_bound=np.array([float(P(a)) for a in v["lb"]]),
            upper_bound=np.array([float(P(a)) for a in v["ub"]]),
            value=None if v["value"] is None else np.array([float(P(a)) for a in v["value"]]),
            type_=v.get("type", "float"),
        )
    return ds


def int_names(case) -> set[str]:
    return {v["name"] for v in case["ds"] if v.get("type") == "integer"}


MDA_SETTINGS = {"tolerance": 1e-14, "max_mda_iter": 300}


def configs(case) -> list[dict[str, Any]]:
    cfgs: list[dict[str, Any]] = [{"form": "MDF", "mda": m} for m in MDAS]
    cfgs.append({"form": "MDF", "mda": "MDAChain", "inner": "MDANewtonRaphson"})
    has_value = all(v["value"] is not None for v in case["ds"])
    for norm in (True, False):
        cfgs.append({"form": "IDF", "norm": norm, "eq": False})
        if has_value:
            cfgs.append({"form": "IDF", "norm": norm, "eq": True})
    # parallel IDF: the top-level discipline is an MDOParallelChain of the disciplines
    par = case.get("par") or {"n": 2, "norm0": True, "procs": False}
    cfgs.append({"form": "IDF", "norm": bool(par["norm0"]), "eq": False, "par": int(par["n"]), "thr": True})
    if has_value:
        cfgs.append({"form": "IDF", "norm": not par["norm0"], "eq": True, "par": int(par["n"]), "thr": True})
    if par.get("procs"):
        cfgs.append({"form": "IDF", "norm": bool(par["norm0"]), "eq": has_value, "par": 2, "thr": False})
    if is_feed_forward(case):
        cfgs.append({"form": "DisciplinaryOpt"})
    return cfgs


def cfg_key(cfg) -> str:
    if cfg["form"] == "MDF":
        return f"MDF/{cfg['mda']}" + (f"[{cfg['inner']}]" if cfg.get("inner") else "")
    if cfg["form"] == "IDF":
        par = f"/par={cfg['par']}{'t' if cfg.get('thr', True) else 'p'}" if cfg.get("par") else ""
        return f"IDF/norm={int(cfg['norm'])}/eq={int(cfg['eq'])}{par}"
    return cfg["form"]


def is_process_parallel(cfg) -> bool:
    return bool(cfg.get("par")) and not cfg.get("thr", True)


def formulation_settings(case, cfg) -> dict[str, Any]:
    if cfg["form"] == "MDF":
        st = dict(MDA_SETTINGS)
        if cfg["mda"] == "MDAChain":
            st["inner_mda_settings"] = dict(MDA_SETTINGS)
            if cfg.get("inner"):
                st["inner_mda_name"] = cfg["inner"]
        if cfg["mda"] == "MDAJacobi" and not case.get("jacobi_threads", True):
            st["n_processes"] = 1  # sequential Jacobi sweeps (the threaded default is kept in one case out of four)
        return {"main_mda_name": cfg["mda"], "main_mda_settings": st}
    if cfg["form"] == "IDF":
        settings: dict[str, Any] = {"normalize_constraints": cfg["norm"], "start_at_equilibrium": cfg["eq"]}
        if cfg["eq"]:
            settings["mda_chain_settings_for_start_at_equilibrium"] = {
                **MDA_SETTINGS,
                "inner_mda_settings": dict(MDA_SETTINGS),
            }
        if cfg.get("par"):
            settings["n_processes"] = int(cfg["par"])
            settings["use_threading"] = bool(cfg.get("thr", True))
        return settings
    return {}


def add_user_functions(case, target, observables: bool = True) -> None:
    """`add_constraint` / `add_observable` of a formulation or of a scenario (same signature)."""
    for c in case["constraints"]:
        names, ty = c[0], c[1]
        a, pos = cons_fmt(c)
        target.add_constraint(names if len(names) > 1 else names[0], constraint_type=ty, value=float(a), positive=pos)
    if observables:
        for names in case.get("observables", []):
            target.add_observable(list(names))


def make_formulation(case, cfg):
    from gemseo.formulations.factory import MDOFormulationFactory

    discs = build_discs(case)
    ds = build_ds(case)
    form = MDOFormulationFactory().create(
        cfg["form"], disciplines=discs, objective_name=case["objective"], design_space=ds,
        **formulation_settings(case, cfg)
    )
    add_user_functions(case, form)
    return form, discs


def point_vector(case, names: list[str], point: dict[str, list[float]]) -> np.ndarray:
    return np.array([a for n in names for a in point[n]], dtype=float)


def _val(v) -> list[float]:
    return [float(a) for a in np.atleast_1d(np.asarray(v, dtype=float)).ravel()]


def _jac(j, nrows: int) -> list[list[float]]:
    a = np.asarray(j, dtype=float)
    if a.ndim == 1:
        a = a.reshape(1, -1)
    return [[float(c) for c in row] for row in a]


def typed_vector(xv: np.ndarray, xdtype: str) -> tuple[np.ndarray, str]:
    """The array in which the caller writes the design point: int64 when the caller works with integer arrays and
    every coordinate is an integer, float32 when the caller works in single precision and the point is exactly
    representable, float64 otherwise.  The array always holds exactly the numbers of `xv`."""
    if xdtype == "int" and all(float(a).is_integer() for a in xv):
        return xv.astype(np.int64), "int64"
    if xdtype == "float32" and all(float(np.float32(a)) == float(a) for a in xv):
        return xv.astype(np.float32), "float32"
    return xv, "float64"


def float_points(case) -> list[dict[str, Any]]:
    """The evaluation points in floats: for every case point (x, t) also (x, float(y*(x)))."""
    cpl = couplings(case)
    udn = used_design_names(case)
    pts = []
    for p in case["points"]:
        x = {v: [P(a) for a in p["x"][v]] for v in p["x"]}
        sol = exact_mda(case, {v: x[v] for v in udn})
        xf = {v: [float(a) for a in x[v]] for v in x}
        tf = {k: [float(P(a)) for a in p["t"][k]] for k in p["t"]} if p["t"] is not None else None
        ystar_f = None
        if sol is not None:
            ystar_f = {k: [float(a) for a in sol[0][k]] for k in cpl}
        pts.append({"kind": p["kind"], "x": x, "xf": xf, "tf": tf, "ystar_f": ystar_f, "sol": sol})
    return pts


def eval_todo(cfg, p) -> list[tuple[str, dict[str, list[float]]]]:
    """The named points at which one formulation is observed for the case point `p`."""
    todo = []
    if cfg["form"] == "IDF":
        if p["tf"] is not None:
            todo.append(("given", {**p["xf"], **p["tf"]}))
        if p["ystar_f"] is not None and p["kind"] in ("anchor", "arb", "intpt", "vanish"):
            todo.append(("consistent", {**p["xf"], **p["ystar_f"]}))
    else:
        todo.append(("x", dict(p["xf"])))
    return todo


PROC_TIMEOUT = 300  # seconds; a slower helper is a skipped configuration, never a verdict


def observe_in_subprocess(case, cfg) -> dict[str, Any]:
    """Process-parallel IDF is observed by `harness/c17_proc.py` in a fresh interpreter (fork safety)."""
    import subprocess
    import sys

    env = dict(os.environ)
    env["PYTHONPATH"] = os.pathsep.join(p for p in [env.get("PYTHONPATH", ""), str(common.VERIF)] if p)
    try:
        r = subprocess.run(
            [sys.executable, "-m", "harness.c17_proc"], input=json.dumps({"case": case, "cfg": cfg}, default=str),
            capture_output=True, text=True, timeout=PROC_TIMEOUT, cwd=str(common.VERIF), env=env,
        )
    except subprocess.TimeoutExpired:
        return {"cfg": cfg, "skipped": "timeout"}
    for line in reversed(r.stdout.splitlines()):
        if line.startswith("C17-PROC-OBS "):
            return json.loads(line[len("C17-PROC-OBS "):])
    return {"cfg": cfg, "skipped": f"helper exit {r.returncode}: {r.stderr[-300:]}"}


class Observer:
    """One formulation of a case, alive in the process: built once, its function objects evaluated point by point
    (every array they return is held), finished when the caller decides (the held arrays are then read again and the
    problem-level entry point is used).  Several observers may be alive together and stepped in any interleaving:
    what each one observes must not depend on the others."""

    def __init__(self, case, cfg, fpts) -> None:
        self.case, self.cfg, self.fpts = case, cfg, fpts
        self.obs: dict[str, Any] = {"cfg": cfg}
        self.ok = False
        self.evals: list[dict[str, Any]] = []
        self.held: list[Any] = []
        self.pts: list[dict[str, Any]] = []

    def build(self) -> None:
        case, cfg, obs = self.case, self.cfg, self.obs
        try:
            self.form, self.discs = make_formulation(case, cfg)
        except Exception as e:  # noqa: BLE001
            obs["error"] = common.exc_class(e)
            obs["error_msg"] = repr(e)[:300]
            return
        pb = self.pb = self.form.optimization_problem
        names = self.names = list(pb.design_space.variable_names)
        obs["names"] = names
        obs["sizes"] = [int(pb.design_space.get_size(n)) for n in names]
        funcs = self.funcs = [pb.objective, *pb.constraints, *pb.observables]
        obs["n_funcs"] = len(funcs)
        obs["f_types"] = [str(getattr(getattr(f, "f_type", ""), "value", getattr(f, "f_type", ""))) for f in funcs]
        if cfg["form"] == "IDF" and cfg.get("eq") and pb.design_space.has_current_value:
            cur = pb.design_space.get_current_value(as_dict=True)
            obs["current"] = {n: _val(cur[n]) for n in names}
        self.shared = case.get("xmode") == "shared"
        obs["xmode"] = "shared" if self.shared else "fresh"
        self.xdtype = case.get("xdtype", "float64")
        self.xbufs: dict[str, np.ndarray] = {}  # the caller's own input arrays (one per dtype), updated in place (shared mode)
        # processes: every discipline execution forks; two points are enough to see the configuration
        pts = list(self.fpts[:2] if is_process_parallel(cfg) else self.fpts)
        if "current" in obs:
            # the point IDF installed itself as the multidisciplinary solution of the current design point
            cpl = set(couplings(case))
            pts.insert(0, {"kind": "start", "xf": {n: v for n, v in obs["current"].items() if n not in cpl},
                           "tf": {n: v for n, v in obs["current"].items() if n in cpl}, "ystar_f": None})
        self.pts = pts
        self.ok = True

    def n_steps(self) -> int:
        return len(self.pts) if self.ok else 0

    def step(self, i: int) -> None:
        """Evaluate every function of the formulation at the i-th point of its history."""
        if not self.ok or i >= len(self.pts):
            return
        case, cfg, names, funcs, shared = self.case, self.cfg, self.names, self.funcs, self.shared
        p = self.pts[i]
        for tag, point in eval_todo(cfg, p):
            rec: dict[str, Any] = {"tag": tag, "kind": p["kind"], "point": point}
            try:
                xv, rec["dtype"] = typed_vector(point_vector(case, names, point), self.xdtype)
                if shared:
                    if rec["dtype"] not in self.xbufs:
                        self.xbufs[rec["dtype"]] = np.empty_like(xv)
                    self.xbufs[rec["dtype"]][:] = xv
                    xv = self.xbufs[rec["dtype"]]
                rec["vals"] = []
                rec["jacs"] = []
                raw_v, raw_j = [], []
                for f in funcs:
                    raw_v.append(f.evaluate(xv if shared else xv.copy()))
                    rec["vals"].append(_val(raw_v[-1]))
                    raw_j.append(f.jac(xv if shared else xv.copy()))
                    rec["jacs"].append(_jac(raw_j[-1], len(rec["vals"][-1])))
                # second evaluation at the same point: masks and adapter buffers are reused
                v2 = _val(funcs[0].evaluate(xv if shared else xv.copy()))
                rec["again"] = v2 == rec["vals"][0]
                self.held.append((rec, raw_v, raw_j))
            except Exception as e:  # noqa: BLE001
                rec["error"] = common.exc_class(e)
                rec["error_msg"] = repr(e)[:300] + common.short_tb(e, 3)
            self.evals.append(rec)

    def finish(self) -> dict[str, Any]:
        if not self.ok:
            return self.obs
        case, cfg, names, funcs, pb, evals = self.case, self.cfg, self.names, self.funcs, self.pb, self.evals
        for rec, raw_v, raw_j in self.held:
            try:
                rec["held_vals"] = [_val(v) for v in raw_v]
                rec["held_jacs"] = [_jac(j, 0) for j in raw_j]
            except Exception as e:  # noqa: BLE001
                rec["held_error"] = repr(e)[:200]
        # problem-level entry point: the point is installed as the current value of the design space and the
        # functions are evaluated through `OptimizationProblem.evaluate_functions` without a design vector (the array
        # the functions receive is then the design space's own current-value array: int64 for an all-integer space)
        if len({f.name for f in funcs}) == len(funcs) and not is_process_parallel(cfg):
            done = 0
            for p in reversed(self.pts):
                if done >= 2:
                    break
                todo = [tp for tp in eval_todo(cfg, p) if tp[0] != "consistent"]
                for tag, point in todo[:1]:
                    if p["kind"] == "start" or any(n not in point for n in names) or not in_bounds(case, {n: point[n] for n in names}):
                        continue  # (a design space that is not the expected one is reported by the names oracle)
                    done += 1
                    rec = {"tag": tag, "kind": p["kind"], "point": point, "via": "evaluate_functions@current", "again": True}
                    try:
                        xv, _ = typed_vector(point_vector(case, names, point), self.xdtype)
                        pb.design_space.set_current_value(xv)
                        rec["dtype"] = str(pb.design_space.get_current_value().dtype)
                        out, jac = pb.evaluate_functions(design_vector=None, design_vector_is_normalized=False,
                                                         output_functions=funcs, jacobian_functions=funcs)
                        rec["vals"] = [_val(out[f.name]) for f in funcs]
                        rec["jacs"] = [_jac(jac[f.name], len(v)) for f, v in zip(funcs, rec["vals"])]
                    except Exception as e:  # noqa: BLE001
                        rec["error"] = common.exc_class(e)
                        rec["error_msg"] = repr(e)[:300] + common.short_tb(e, 3)
                    evals.append(rec)
        self.obs["evals"] = evals
        self.ok = False
        return self.obs


def observe_config(case, cfg, fpts, in_process: bool = False) -> dict[str, Any]:
    """Observable behaviour of one formulation on the case, used alone.

    The same function objects are evaluated at all the points, one after the other, and every array they
    return is held until the end (`held_vals` / `held_jacs` are read from the held objects after the last call).
    """
    if is_process_parallel(cfg) and not in_process:
        return observe_in_subprocess(case, cfg)
    o = Observer(case, cfg, fpts)
    o.build()
    for i in range(o.n_steps()):
        o.step(i)
    return o.finish()


def session_order(case, cfgs: list[dict[str, Any]]) -> list[dict[str, Any]]:
    """The order in which the formulations of the case are built and first used (`case["session"]["order"]`): the
    canonical order (MDF, then IDF, then DisciplinaryOpt), the reverse order, or a mixed order."""
    sess = case.get("session") or {}
    order = sess.get("order", "fwd")
    canon = [cfg_key(c) for c in configs(case)]
    if order == "rev":
        return list(reversed(cfgs))
    if order == "mix":
        keys = sess.get("keys") or [0] * 16
        return sorted(cfgs, key=lambda c: (keys[canon.index(cfg_key(c)) % len(keys)], canon.index(cfg_key(c))))
    return list(cfgs)


def doe_label(cfg, normalize: bool) -> str:
    return f"DOE[{cfg_key(cfg)},normalize_design_space={int(normalize)}]"


def doe_config(case):
    """The formulation of the case that is run through a DOE scenario, or None."""
    doe = case.get("doe")
    if not doe:
        return None
    cands = [c for c in configs(case) if not is_process_parallel(c) and not c.get("eq") and expected_names(case, c["form"]) is not None]
    if not cands:
        return None
    # (with integer variables the samples are always given in the design space: the unit-cube convention used below
    # for normalize_design_space=True does not apply to the integer components)
    return cands[int(doe["pick"]) % len(cands)], bool(doe.get("normalize")) and not int_names(case)


def in_bounds(case, point: dict[str, list[float]]) -> bool:
    for v in case["ds"]:
        if v["name"] in point:
            for a, l, u in zip(point[v["name"]], v["lb"], v["ub"]):
                if not (P(l) <= F(a) <= P(u)):
                    return False
    return True


def observe_doe(case, cfg, normalize: bool, fpts) -> dict[str, Any]:
    """One formulation driven by a DOE scenario: what the problem's database holds for each sample.

    CustomDOE on the case's points (those inside the bounds, duplicates removed), `eval_jac=True`; with
    `normalize_design_space=True` the samples are given in the unit cube.  The database is indexed by the
    (unnormalized) design vector and must hold, for each sample, the value and the gradient of the objective and
    of every constraint at that sample.
    """
    from gemseo.scenarios.doe_scenario import DOEScenario

    obs: dict[str, Any] = {"cfg": cfg, "doe": True, "rounded": bool(normalize), "label": doe_label(cfg, normalize)}
    try:
        sc = DOEScenario(
            build_discs(case), case["objective"], build_ds(case), formulation_name=cfg["form"],
            **formulation_settings(case, cfg)
        )
        add_user_functions(case, sc, observables=False)
        pb = sc.formulation.optimization_problem
    except Exception as e:  # noqa: BLE001
        obs["error"] = common.exc_class(e)
        obs["error_msg"] = repr(e)[:300]
        return obs
    names = list(pb.design_space.variable_names)
    obs["names"] = names
    obs["sizes"] = [int(pb.design_space.get_size(n)) for n in names]
    funcs = [pb.objective, *pb.constraints]
    obs["n_funcs"] = len(funcs)
    obs["f_types"] = [str(getattr(getattr(f, "f_type", ""), "value", getattr(f, "f_type", ""))) for f in funcs]
    # the database is indexed by function NAME: when a user constraint on a coupling has the name of IDF's consistency
    # constraint of that coupling, the two functions are one database column; such a run is a probe (no verdict)
    obs["probe"] = len({f.name for f in funcs}) < len(funcs)
    req: list[tuple[str, str, dict[str, list[float]], np.ndarray]] = []
    obs["n_samples"] = 0
    obs["evals"] = []
    if names != expected_names(case, cfg["form"]):
        return obs  # the oracle reports the design-space composition; no sample can be formed
    for p in fpts:
        for tag, point in eval_todo(cfg, p):
            point = {n: point[n] for n in names}
            if not in_bounds(case, point):
                continue
            xv = point_vector(case, names, point)
            if any(np.array_equal(xv, r[3]) for r in req):
                continue
            req.append((tag, p["kind"], point, xv))
    obs["n_samples"] = len(req)
    obs["evals"] = []
    if not req:
        return obs
    samples = np.array([r[3] for r in req])
    if normalize:
        lb = np.asarray(pb.design_space.get_lower_bounds(), dtype=float)
        ub = np.asarray(pb.design_space.get_upper_bounds(), dtype=float)
        samples = (samples - lb) / (ub - lb)
    try:
        sc.execute(algo_name="CustomDOE", samples=samples, eval_jac=True, normalize_design_space=normalize)
        db = pb.database
        obs["n_db"] = len(db)
        fnames = [f.name for f in funcs]
        for it in range(1, min(len(db), len(req)) + 1):
            tag, kind, point, xv = req[it - 1]
            x = np.asarray(db.get_x_vect(it), dtype=float)
            rec: dict[str, Any] = {"tag": tag, "kind": kind, "again": True, "requested": [float(a) for a in xv],
                                   "x": [float(a) for a in x]}
            if x.shape != xv.shape:
                rec["error"] = "E:shape"
                rec["error_msg"] = f"database entry {it} has an input vector of shape {x.shape}"
                rec["point"] = point
                obs["evals"].append(rec)
                continue
            off = 0
            rec["point"] = {}
            for n, m in zip(names, obs["sizes"]):
                rec["point"][n] = [float(a) for a in x[off : off + m]]
                off += m
            rec["vals"], rec["jacs"] = [], []
            missing = []
            for fn in fnames:
                v = db.get_function_value(fn, it)
                g = db.get_function_value(db.get_gradient_name(fn), it)
                if v is None:
                    missing.append(fn)
                if g is None:
                    missing.append(db.get_gradient_name(fn))
                if v is not None and g is not None:
                    rec["vals"].append(_val(v))
                    rec["jacs"].append(_jac(g, len(rec["vals"][-1])))
            if missing:
                rec["error"] = "E:missing"
                rec["error_msg"] = f"database entry {it} lacks {missing}"
            obs["evals"].append(rec)
    except Exception as e:  # noqa: BLE001
        obs["error"] = common.exc_class(e)
        obs["error_msg"] = repr(e)[:300] + common.short_tb(e, 3)
    return obs


# --------------------------------------------------------------------------- oracle (property text)


def near(v: float, e: Fraction, bound: Fraction) -> bool:
    """Positive assertion: finite and within the bound (bound 0: exact)."""
    if not (isinstance(v, float) and math.isfinite(v)):
        return False
    return abs(F(v) - e) <= bound * max(Fraction(1), abs(e))


def cmp_vec(got: list[float], exp: list[Fraction], bound: Fraction) -> str | None:
    if len(got) != len(exp):
        return f"size {len(got)} instead of {len(exp)}"
    for i, (g, e) in enumerate(zip(got, exp)):
        if not near(g, e, bound):
            return f"component {i}: {g!r} instead of {float(e)!r} ({e})"
    return None


def cmp_mat(got: list[list[float]], exp: list[list[Fraction]], bound: Fraction) -> str | None:
    if len(got) != len(exp):
        return f"{len(got)} rows instead of {len(exp)}"
    for r, (gr, er) in enumerate(zip(got, exp)):
        if len(gr) != len(er):
            return f"row {r}: {len(gr)} columns instead of {len(er)}"
        for c, (g, e) in enumerate(zip(gr, er)):
            if not near(g, e, bound):
                return f"entry ({r},{c}): {g!r} instead of {float(e)!r} ({e})"
    return None


def is_dyadic_small(point: dict[str, list[float]]) -> bool:
    return all(F(a).denominator <= 64 and abs(F(a)) <= 64 for v in point.values() for a in v)


def expected_names(case, form: str) -> list[str] | None:
    """The variables each formulation optimises (None: the formulation must refuse the design space)."""
    cpl = set(couplings(case))
    dsn = [v["name"] for v in case["ds"]]
    ins = all_inputs(case)
    if form == "IDF":
        return dsn if cpl <= set(dsn) else None
    # MDF / DisciplinaryOpt: couplings are computed, not optimised; unused variables are dropped
    return [n for n in dsn if n not in cpl and n in ins]


def idf_constraint_plan(case):
    """IDF builds one consistency constraint per discipline having output couplings, then the user constraints."""
    cpl = set(couplings(case))
    plan = []
    for d in case["discs"]:
        if any(o in cpl for o in out_names(d)):
            plan.append(("consistency", d))
    for c in case["constraints"]:
        plan.append(("function", c))
    return plan


def obs_observables(case, obs) -> list[list[str]]:
    """The observables attached to the observed problem (none in the DOE stream: a DOE has no observable Jacobian)."""
    return [] if obs.get("doe") else case.get("observables", [])


def same_numbers(now: list[float], then: list[float]) -> bool:
    """Positive assertion: same length, every number finite and equal to the number seen when it was returned."""
    return len(now) == len(then) and all(
        isinstance(a, float) and isinstance(b, float) and math.isfinite(a) and a == b for a, b in zip(now, then)
    )


def oracle_held(form: str, where: str, rec) -> list[tuple[str, str]]:
    """The arrays returned for a design point belong to the caller: they still hold the values / derivatives of
    THAT point after the same functions have been evaluated at other points."""
    bad: list[tuple[str, str]] = []
    if "held_error" in rec:
        return [(f"{form.lower()}-returned-array-unreadable", f"{where}: {rec['held_error']}")]
    if "held_vals" not in rec:
        return bad
    for k, (now, then) in enumerate(zip(rec["held_vals"], rec["vals"])):
        if not same_numbers(now, then):
            bad.append((f"{form.lower()}-returned-value-overwritten",
                        f"{where}: function {k}: the returned value was {then}; after the evaluations at the following points the same array holds {now}"))
            break
    for k, (now, then) in enumerate(zip(rec["held_jacs"], rec["jacs"])):
        if not (len(now) == len(then) and all(same_numbers(a, b) for a, b in zip(now, then))):
            bad.append((f"{form.lower()}-returned-jacobian-overwritten",
                        f"{where}: function {k}: the returned Jacobian was {then}; after the evaluations at the following points the same array holds {now}"))
            break
    return bad


def oracle_doe(case, obs) -> list[tuple[str, str]]:
    """The database of a DOE holds, for each requested sample, the values and gradients at that sample."""
    bad: list[tuple[str, str]] = []
    ck = obs["label"]
    if "error" in obs and "names" in obs:
        return [("doe-raises", f"{ck}: the DOE scenario raised {obs['error']} {obs.get('error_msg')}")]
    if "error" not in obs:
        if obs.get("n_db") != obs.get("n_samples") and obs.get("n_samples"):
            bad.append(("doe-database-size", f"{ck}: {obs.get('n_db')} database entries for {obs['n_samples']} distinct samples"))
        for rec in obs["evals"]:
            if "x" in rec and len(rec["x"]) == len(rec["requested"]):
                # the DOE library maps the samples to the unit cube and back: the evaluated point is the requested
                # one up to that round trip (the expectations below are computed at the point the database reports)
                if not all(near(a, F(r), EBOUND) for a, r in zip(rec["x"], rec["requested"])):
                    bad.append(("doe-sample-point", f"{ck}: database entry at {rec['x']} instead of the requested sample {rec['requested']}"))
    bad += [("doe-" + k, m) for k, m in oracle_config(case, obs)]
    return bad


def oracle_config(case, obs) -> list[tuple[str, str]]:
    bad: list[tuple[str, str]] = []
    cfg = obs["cfg"]
    form = cfg["form"]
    ck = obs.get("label") or cfg_key(cfg)
    if "skipped" in obs:
        return bad  # the helper process did not answer in time: no observation, no verdict
    observables = obs_observables(case, obs)
    exp_names = expected_names(case, form)
    if exp_names is None:
        if "error" not in obs:
            bad.append(("idf-missing-coupling-accepted", f"{ck}: a coupling is not in the design space but IDF was built"))
        elif obs["error"] != "E:value":
            bad.append(("idf-missing-coupling-error", f"{ck}: {obs['error']} {obs.get('error_msg')}"))
        return bad
    if "error" in obs:
        bad.append((f"{form.lower()}-build-raises", f"{ck}: building the formulation raised {obs['error']} {obs.get('error_msg')}"))
        return bad
    if obs["names"] != exp_names:
        bad.append((f"names-{form.lower()}", f"{ck}: design space {obs['names']} instead of {exp_names}"))
        return bad
    if obs["sizes"] != [var_size(case, n) for n in exp_names]:
        bad.append((f"sizes-{form.lower()}", f"{ck}: sizes {obs['sizes']}"))
        return bad
    names = exp_names
    n_user = len(case["constraints"])
    plan = idf_constraint_plan(case) if form == "IDF" else [("function", c) for c in case["constraints"]]
    n_obs = len(observables)
    if obs["n_funcs"] != 1 + len(plan) + n_obs:
        bad.append((f"{form.lower()}-constraint-count", f"{ck}: {obs['n_funcs'] - 1 - n_obs} constraints instead of {len(plan)} ({n_user} user)"))
        return bad
    want_types = ["obj"]
    for k, (kind, _) in enumerate(plan):
        want_types.append("eq" if kind == "consistency" else case["constraints"][k - (len(plan) - n_user)][1])
    for k in range(1, len(want_types)):
        if obs["f_types"][k] != want_types[k]:
            bad.append((f"{form.lower()}-constraint-type", f"{ck}: constraint {k - 1} has type {obs['f_types'][k]!r} instead of {want_types[k]!r}"))
    udn = used_design_names(case)
    # input distribution: (function, variable) Jacobian blocks that are exactly zero at a point of the history
    # after having been non-zero at an earlier point of the same history (same function objects)
    stats: dict[str, int] = {}
    obs["stats"] = stats
    seen_nonzero: set[tuple[int, str]] = set()
    off_n, _tot_n = layout(case, names)

    def note_blocks(k: int, ej) -> None:
        for n in names:
            cols = range(off_n[n], off_n[n] + var_size(case, n))
            zero = all(row[c] == 0 for row in ej for c in cols)
            if not zero:
                seen_nonzero.add((k, n))
            elif (k, n) in seen_nonzero:
                stats["jacobian-block-exactly-zero-after-nonzero"] = stats.get("jacobian-block-exactly-zero-after-nonzero", 0) + 1

    for rec in obs["evals"]:
        where = f"{ck} at {rec['kind']}/{rec['tag']} point" + (f" [{rec['dtype']} array]" if rec.get("dtype", "float64") != "float64" else "") + (f" via {rec['via']}" if rec.get("via") else "")
        if "error" in rec:
            bad.append((f"{form.lower()}-evaluation-raises", f"{where}: {rec['error']} {rec.get('error_msg')}"))
            continue
        point = {n: [F(a) for a in v] for n, v in rec["point"].items()}
        if not rec.get("again", False):
            bad.append((f"{form.lower()}-not-repeatable", f"{where}: a second evaluation at the same point gives another value"))
        bad += oracle_held(form, where, rec)
        if form == "IDF":
            exact = is_dyadic_small(rec["point"]) and not obs.get("rounded")
            # objective and user functions
            specs = [("objective", [[case["objective"]], "obj"])] + [
                (("consistency" if kind == "consistency" else "constraint"), what) for kind, what in plan
            ] + [("observable", [ns, "obs"]) for ns in observables]
            for k, (kind, what) in enumerate(specs):
                if kind == "consistency":
                    ev, ej = expect_consistency(case, what, names, point, cfg["norm"])
                    pow2 = all(
                        (s.numerator & (s.numerator - 1)) == 0 and s.denominator == 1
                        for o in out_names(what)
                        if o in couplings(case)
                        for s in coupling_scale(case, o)
                    )
                    b = Fraction(0) if exact and (pow2 or not cfg["norm"]) else EBOUND
                else:
                    ev, ej = apply_fmt(what, *expect_idf_function(case, what[0], names, point))
                    b = Fraction(0) if exact else EBOUND
                m = cmp_vec(rec["vals"][k], ev, b)
                if m:
                    bad.append((f"idf-{kind}-value", f"{where}: {kind} {k - 1 if k else ''} value {m}"))
                m = cmp_mat(rec["jacs"][k], ej, b)
                if m:
                    bad.append((f"idf-{kind}-jac", f"{where}: {kind} {k - 1 if k else ''} Jacobian {m}"))
                if not rec.get("via"):
                    note_blocks(k, ej)
                if kind == "consistency":
                    if rec["kind"] == "anchor" and b == 0:
                        if not all(isinstance(a, float) and a == 0.0 for a in rec["vals"][k]):
                            bad.append(("idf-consistency-zero", f"{where}: consistency constraint {rec['vals'][k]} is not exactly zero at the multidisciplinary solution"))
                    elif rec["tag"] == "consistent" or rec["kind"] == "anchor":
                        if not all(isinstance(a, float) and math.isfinite(a) and abs(F(a)) <= EBOUND for a in rec["vals"][k]):
                            bad.append(("idf-consistency-zero", f"{where}: consistency constraint {rec['vals'][k]} does not vanish at the multidisciplinary solution"))
                    elif rec["kind"] == "start":
                        # the couplings come from an MDA converged to 1e-14: residual within the MDA bound
                        if not all(isinstance(a, float) and math.isfinite(a) and abs(F(a)) <= BOUND for a in rec["vals"][k]):
                            bad.append(("idf-equilibrium-start-not-consistent", f"{where}: consistency constraint {rec['vals'][k]} does not vanish at the start point installed by start_at_equilibrium"))
            if rec["kind"] == "perturbed":
                # exactly one coupling component differs from the solution: some consistency constraint is non-zero
                cons_vals = [a for k, (kind, _) in enumerate(specs) if kind == "consistency" for a in rec["vals"][k]]
                if not any(isinstance(a, float) and math.isfinite(a) and a != 0.0 for a in cons_vals):
                    bad.append(("idf-consistency-nonzero", f"{where}: all consistency constraints vanish away from the multidisciplinary solution"))
        else:
            x = {n: point[n] for n in udn}
            sol = exact_mda(case, x)
            if sol is None:
                continue
            specs = [("objective", [[case["objective"]], "obj"])] + [("constraint", c) for c in case["constraints"]]
            specs += [("observable", [ns, "obs"]) for ns in observables]
            # DisciplinaryOpt on a feed-forward system and MDF with MDAChain on a system without strong coupling
            # involve no fixed-point iteration, but the chain rule / coupled adjoint go through a linear solve
            for k, (kind, what) in enumerate(specs):
                ev, ej = apply_fmt(what, *expect_mdf_function(case, what[0], names, x, sol))
                m = cmp_vec(rec["vals"][k], ev, BOUND)
                if m:
                    bad.append((f"{form.lower()}-{kind}-value", f"{where}: {kind} {k - 1 if k else ''} value {m}"))
                m = cmp_mat(rec["jacs"][k], ej, BOUND)
                if m:
                    bad.append((f"{form.lower()}-{kind}-jac", f"{where}: {kind} {k - 1 if k else ''} total derivative {m}"))
                if not rec.get("via"):
                    note_blocks(k, ej)
    if form == "IDF" and cfg.get("eq") and not obs.get("doe"):
        # start_at_equilibrium: the couplings' current values are the multidisciplinary solution at the current x
        cur = obs.get("current")
        if cur is None:
            bad.append(("idf-equilibrium-start", f"{ck}: no current value after start_at_equilibrium"))
        else:
            x = {n: [P(a) for a in v["value"]] for v in case["ds"] for n in [v["name"]] if n in udn}
            sol = exact_mda(case, x)
            for v in case["ds"]:
                n = v["name"]
                want = sol[0][n] if n in sol[0] else [P(a) for a in v["value"]]
                m = cmp_vec(cur[n], want, BOUND if n in sol[0] else Fraction(0))
                if m:
                    bad.append(("idf-equilibrium-start", f"{ck}: current value of {n} after start_at_equilibrium: {m}"))
    return bad


def oracle_cross(case, obs_by_key: dict[str, Any]) -> list[tuple[str, str]]:
    """MDF vs IDF directly, from the values and Jacobians *reported by the formulations* (no closed form)."""
    bad: list[tuple[str, str]] = []
    cpl = couplings(case)
    idfs = [o for k, o in obs_by_key.items() if k.startswith("IDF") and "evals" in o]
    others = [o for k, o in obs_by_key.items() if not k.startswith("IDF") and "evals" in o]
    n_user = len(case["constraints"])
    for oi in idfs:
        names_i = oi["names"]
        off_i, tot_i = layout(case, names_i)
        for ri in oi["evals"]:
            if ri["tag"] != "consistent" or "error" in ri:
                continue
            n_cons = len(ri["vals"]) - 1 - n_user - len(case.get("observables", []))
            # stacked consistency constraints: rows = all couplings
            crow = [row for k in range(1, 1 + n_cons) for row in ri["jacs"][k]]
            tcols = [off_i[k] + c for k in cpl for c in range(var_size(case, k))]
            if len(crow) != len(tcols):
                continue
            try:
                ct = [[F(row[c]) for c in tcols] for row in crow]
            except ValueError:
                continue
            for om in others:
                names_m = om["names"]
                xcols = [off_i[n] + c for n in names_m for c in range(var_size(case, n))]
                cx = [[F(row[c]) for c in xcols] for row in crow]
                z = fsolve(ct, cx) if ct else []
                if z is None:
                    bad.append(("idf-consistency-jacobian-singular", f"{cfg_key(oi['cfg'])}: d c/d t is singular at a consistent point"))
                    continue
                for rm in om["evals"]:
                    if "error" in rm or rm["kind"] != ri["kind"] or any(
                        rm["point"][n] != ri["point"][n] for n in names_m
                    ):
                        continue
                    n_fun = n_user + len(case.get("observables", []))
                    fidx = [0] + list(range(1 + n_cons, 1 + n_cons + n_fun))
                    for km, ki in enumerate(fidx):
                        who = f"{cfg_key(om['cfg'])} vs {cfg_key(oi['cfg'])} at {ri['kind']} point, function {km}"
                        try:
                            ev = [F(a) for a in ri["vals"][ki]]
                            fx = [[F(row[c]) for c in xcols] for row in ri["jacs"][ki]]
                            ft = [[F(row[c]) for c in tcols] for row in ri["jacs"][ki]]
                        except ValueError:
                            bad.append(("mdf-vs-idf-value", f"{who}: non-finite IDF value"))
                            continue
                        m = cmp_vec(rm["vals"][km], ev, BOUND)
                        if m:
                            bad.append(("mdf-vs-idf-value", f"{who}: {m}"))
                        tot = [[a - b for a, b in zip(r1, r2)] for r1, r2 in zip(fx, fmul(ft, z))] if ct else fx
                        m = cmp_mat(rm["jacs"][km], tot, BOUND)
                        if m:
                            bad.append(("mdf-vs-idf-total-derivative", f"{who}: d/dx {m}"))
    return bad


# --------------------------------------------------------------------------- mask / unmask API stream


def gen_mask_ops(rng: common.Rng, case, names: list[str]) -> list[dict[str, Any]]:
    ops = []
    for _ in range(3):
        all_names = [n for n in names if rng.chance(0.8)] or list(names)
        if rng.chance(0.4):
            rng.shuffle(all_names)
        sub = [n for n in all_names if rng.chance(0.5)]
        in_order = True
        if sub and rng.chance(0.25):
            s2 = list(sub)
            rng.shuffle(s2)
            in_order = s2 == sub
            sub = s2
        tot = sum(var_size(case, n) for n in all_names)
        x = [rat(_dy(rng, -4, 4, 4)) for _ in range(tot)]
        rows = rng.pick([0, 0, 2])
        full = rng.chance(0.4)
        ops.append({"all": all_names, "masking": sub, "x": x, "rows": rows, "full": full, "in_order": in_order,
                    "default_all": all_names == names and rng.chance(0.5)})
    return ops


def run_mask_ops(case, form, ops) -> list[dict[str, Any]]:
    out = []
    for op in ops:
        rec: dict[str, Any] = {}
        all_names = () if op["default_all"] else op["all"]
        try:
            mask = form.get_x_mask_x_swap_order(op["masking"], all_names)
            rec["mask"] = [int(i) for i in mask]
            x = np.array([float(P(a)) for a in op["x"]])
            xm = form.mask_x_swap_order(op["masking"], x, all_names)
            rec["masked"] = [float(a) for a in xm]
            if op["rows"]:
                xmm = np.vstack([xm * (r + 1) for r in range(op["rows"])])
                xfull = np.vstack([x * 0 - (r + 1) for r in range(op["rows"])]) if op["full"] else None
                un = form.unmask_x_swap_order(op["masking"], xmm, all_names, xfull)
                rec["unmasked"] = [[float(a) for a in row] for row in un]
            else:
                xfull = (x * 0 - 1) if op["full"] else None
                un = form.unmask_x_swap_order(op["masking"], xm, all_names, xfull)
                rec["unmasked"] = [[float(a) for a in un]]
        except Exception as e:  # noqa: BLE001
            rec["error"] = common.exc_class(e)
        out.append(rec)
    return out


def oracle_mask(case, op, rec) -> list[tuple[str, str]]:
    """mask = the selected variables' slices in masking order; unmask(mask(x)) restores them, default elsewhere."""
    if "error" in rec:
        return [("mask-raises", f"mask/unmask raised {rec['error']} for {op['masking']} in {op['all']}")]
    bad = []
    off, tot = layout(case, op["all"])
    x = [P(a) for a in op["x"]]
    want_idx = [off[n] + c for n in op["masking"] for c in range(var_size(case, n))]
    if rec["mask"] != want_idx:
        bad.append(("mask-indices", f"mask of {op['masking']} in {op['all']}: {rec['mask']} instead of {want_idx}"))
    if [F(a) for a in rec["masked"]] != [x[i] for i in want_idx]:
        bad.append(("mask-values", f"masked vector of {op['masking']} in {op['all']} is not the selected slices"))
    nrow = op["rows"] or 1
    for r in range(nrow):
        mult = (r + 1) if op["rows"] else 1
        dflt = Fraction(-(r + 1)) if op["rows"] else Fraction(-1)
        want = [(x[i] * mult if i in want_idx else (dflt if op["full"] else Fraction(0))) for i in range(tot)]
        got = rec["unmasked"][r] if r < len(rec["unmasked"]) else None
        if got is None or len(got) != tot or [F(a) for a in got] != want:
            bad.append(("unmask-roundtrip", f"unmask(mask(x)) for {op['masking']} in {op['all']} row {r}: {got} instead of {[float(a) for a in want]}"))
            break
    return bad


# --------------------------------------------------------------------------- Lean correspondence


def _rl(v) -> str:
    v = list(v)
    return ",".join(rat(a) for a in v) if v else "[]"


def _mat(m) -> str:
    return ";".join(_rl(r) for r in m) if m else "[]"


def case_lines(case) -> list[str]:
    """Protocol lines defining the system in the Lean driver (answers: `ok`)."""
    lines = ["reset"]
    lines.append("ds " + " ".join(
        f"{v['name']}:{v['size']}:{_rl(P(a) for a in v['lb'])}:{_rl(P(a) for a in v['ub'])}" + (":i" if v.get("type") == "integer" else "")
        for v in case["ds"]))
    for d in case["discs"]:
        ins = ",".join(f"{n}:{s}" for n, s in d["ins"]) or "[]"
        dfl = " ".join(f"def.{n}={_rl(P(a) for a in v)}" for n, v in d.get("defaults", {}).items())
        dl = ",".join(d.get("declare_linear", [])) or "[]"
        sto = {"dense": "d", "mixed": "m"}.get(d.get("jac_storage", "dense"), "s")
        # (opt=: the inputs the grammar does not require; the model's inputs are the grammar NAMES, no answer depends on it)
        opt = (" opt=" + ",".join(d["optional"])) if d.get("optional") else ""
        lines.append(f"disc {d['name']} {ins} {dl} {dfl}".rstrip() + opt + f" sto={sto}")
        for o, s in d["outs"]:
            toks = [f"out {d['name']} {o} const={_rl(P(a) for a in s['const'])}"]
            for v, b in s.get("lin", {}).items():
                toks.append(f"lin.{v}={_mat([[P(a) for a in r] for r in b])}")
            for v, b in s.get("quad", {}).items():
                toks.append(f"quad.{v}={_mat([[P(a) for a in r] for r in b])}")
            lines.append(" ".join(toks))
    return lines


def model_lines_for_config(case, obs) -> list[tuple[str, Any]]:
    """(protocol line, expectation descriptor) pairs for one observed formulation."""
    cfg = obs["cfg"]
    form = cfg["form"]
    out: list[tuple[str, Any]] = []
    tag = {"MDF": "mdf", "IDF": "idf", "DisciplinaryOpt": "dopt"}[form]
    if "skipped" in obs:
        return out
    out.append((f"names {tag}", ("names", obs)))
    if "error" in obs or "evals" not in obs or obs.get("probe"):
        return out
    names = obs["names"]
    funcs: list[tuple[str, str]] = [("f", case["objective"])]
    fmt_tok = {}
    if form == "IDF":
        cpl = set(couplings(case))
        for d in case["discs"]:
            if any(o in cpl for o in out_names(d)):
                funcs.append(("c", d["name"]))
    for c in case["constraints"]:
        funcs.append(("f", ",".join(c[0])))
        a, pos = cons_fmt(c)
        if len(c) > 2:
            fmt_tok[len(funcs) - 1] = f" a={rat(a)} pos={int(pos)}"
    for ns in obs_observables(case, obs):
        funcs.append(("f", ",".join(ns)))
    udn = used_design_names(case)
    if obs.get("n_funcs") != len(funcs):
        # the formulation does not expose the functions the model expects (the oracle reports the count)
        out.append(("nfuncs " + str(len(funcs)), ("nfuncs", obs)))
        return out
    rounded = bool(obs.get("rounded"))
    if form == "IDF" and cfg.get("eq") and "current" in obs and not obs.get("doe"):
        # start_at_equilibrium: the model checks the exact solution at the CURRENT design values of the design
        # space (certificate supplied by the harness) and answers the new current value
        cur0 = [P(a) for v in case["ds"] for a in v["value"]]
        x0 = {v["name"]: [P(a) for a in v["value"]] for v in case["ds"] if v["name"] in udn}
        sol0 = exact_mda(case, x0)
        if sol0 is not None:
            ytok = " ".join(f"y.{k}={_rl(sol0[0][k])}" for k in sorted(sol0[0]))
            out.append((f"equil cur={_rl(cur0)} {ytok}".rstrip(), ("equil", obs)))
    # the history of jac calls on the function objects of this formulation (the harness holds every array)
    hold = not obs.get("doe")
    held: list[tuple[Any, int, bool, bool]] = []
    if hold:
        out.append((f"hreset {len(funcs)}", ("ok",)))
    idf_tag = "idfp" if cfg.get("par") else "idf"
    for rec in obs["evals"]:
        if "error" in rec or len(rec.get("vals", [])) != len(funcs):
            continue
        xv = [F(a) for n in names for a in rec["point"][n]]
        # the array in which the point was passed: integer dtype, or DOE samples carrying the declared types
        dtok = " dt=i" if str(rec.get("dtype", "")).startswith("int") else ""
        if obs.get("doe") and 0 < len(int_names(case) & set(names)) < len(names):
            dtok += " typed=1"
        if form == "IDF":
            exact = is_dyadic_small(rec["point"]) and not rounded
            for k, (kind, what) in enumerate(funcs):
                line = f"eval {idf_tag} {int(cfg['norm'])} {kind} {what} x={_rl(xv)}" + fmt_tok.get(k, "") + dtok
                if hold and "held_jacs" in rec:
                    line += f" hold={k}"
                    held.append((rec, k, exact, False))
                out.append((line, ("eval", rec, k, exact, False)))
        else:
            x = {n: [F(a) for a in rec["point"][n]] for n in udn}
            sol = exact_mda(case, x)
            if sol is None:
                continue
            ystar, W, dv = sol
            cp = sorted(ystar)
            ytok = " ".join(f"y.{k}={_rl(ystar[k])}" for k in cp)
            wtok = " ".join(f"w.{k}.{n}={_mat(W[k, n])}" for k in cp for n in names)
            for k, (kind, what) in enumerate(funcs):
                line = f"eval {tag} {what} x={_rl(xv)} {ytok} {wtok}".rstrip() + fmt_tok.get(k, "") + dtok
                if hold and "held_jacs" in rec:
                    line += f" hold={k}"
                    held.append((rec, k, False, True))
                out.append((line, ("eval", rec, k, False, True)))
    if hold:
        out.append(("held", ("held", held, cfg_key(cfg))))
    return out


def parse_model_eval(ans: str):
    """`v=<rats> j=<rows>` -> (vals, rows) or None."""
    parts = dict(t.split("=", 1) for t in ans.split(" ") if "=" in t)
    if "v" not in parts or "j" not in parts:
        return None
    v = [] if parts["v"] == "[]" else [Fraction(t) for t in parts["v"].split(",")]
    j = [] if parts["j"] == "[]" else [([] if r == "[]" else [Fraction(t) for t in r.split(",")]) for r in parts["j"].split(";")]
    return v, j


def model_protocol(case, obs_list, mask_recs) -> tuple[list[str], list[Any], int]:
    """Protocol lines of one case: definitions (answers `ok`), then one line per observation."""
    lines = case_lines(case)
    n_def = len(lines)
    plan: list[Any] = []
    for obs in obs_list:
        for line, exp in model_lines_for_config(case, obs):
            lines.append(line)
            plan.append(exp)
    for op, rec, _names in mask_recs:
        alln = ",".join(op["all"]) or "[]"
        mk = ",".join(op["masking"]) or "[]"
        lines.append(f"mask {alln} {mk}")
        plan.append(("mask", op, rec))
        lines.append(f"unmask {alln} {mk} {_rl(P(a) for a in op['x'])} {op['rows']} {int(op['full'])}")
        plan.append(("unmask", op, rec))
    return lines, plan, n_def


def diff_model(lines, plan, n_def, answers, res: Result) -> list[dict[str, Any]]:
    """Diff the model's answers with the implementation's observations; returns the disagreements."""
    dis: list[dict[str, Any]] = []
    for a in answers[:n_def]:
        if a != "ok":
            dis.append({"line": "definition", "model": a, "impl": "ok"})
    for line, exp, ans in zip(lines[n_def:], plan, answers[n_def:]):
        kind = exp[0]
        if kind == "names":
            obs = exp[1]
            if "error" in obs:
                impl = obs["error"]
            else:
                impl = ",".join(obs.get("names", [])) or "[]"
            if impl != ans:
                dis.append({"line": line, "model": ans, "impl": impl, "cfg": cfg_key(obs["cfg"])})
            else:
                res.traces_validated += 1
        elif kind == "nfuncs":
            dis.append({"line": line, "model": line.split()[1], "impl": exp[1].get("n_funcs")})
        elif kind == "ok":
            if ans != "ok":
                dis.append({"line": line, "model": ans, "impl": "ok"})
        elif kind == "equil":
            obs = exp[1]
            cur = [a for n in obs["names"] for a in obs["current"][n]]
            if ans.startswith("E") or ans == "bad-op":
                dis.append({"line": line, "model": ans, "impl": cur, "cfg": cfg_key(obs["cfg"])})
                continue
            want = [] if ans == "[]" else [Fraction(t) for t in ans.split(",")]
            m = cmp_vec(cur, want, BOUND)
            if m:
                dis.append({"line": line, "model": ans[:400], "impl": cur, "diff": "current value after start_at_equilibrium: " + m,
                            "cfg": cfg_key(obs["cfg"])})
            else:
                res.traces_validated += 1
        elif kind == "held":
            _, held, ck = exp
            mats = [] if ans == "[]" else ans.split("|")
            if len(mats) != len(held):
                # an eval line of this history was refused by the model (reported on that line)
                continue
            for (rec, k, exact, mda), mtxt in zip(held, mats):
                rows = [] if mtxt == "[]" else [([] if r == "[]" else [Fraction(t) for t in r.split(",")]) for r in mtxt.split(";")]
                b = BOUND if mda else (Fraction(0) if exact else EBOUND)
                m = cmp_mat(rec["held_jacs"][k], rows, b)
                if m and b == 0:
                    m = cmp_mat(rec["held_jacs"][k], rows, EBOUND)  # non power-of-two normalisation
                if m:
                    dis.append({"line": line, "model": mtxt[:400], "impl": rec["held_jacs"][k], "cfg": ck,
                                "diff": f"array held since the call at the {rec['kind']}/{rec['tag']} point, function {k}: {m}"})
                    break
            else:
                res.traces_validated += 1
        elif kind == "eval":
            _, rec, k, exact, mda = exp
            pm = parse_model_eval(ans)
            if pm is None:
                dis.append({"line": line, "model": ans, "impl": "values"})
                continue
            b = BOUND if mda else (Fraction(0) if exact else EBOUND)
            m = cmp_vec(rec["vals"][k], pm[0], b) or cmp_mat(rec["jacs"][k], pm[1], b)
            if m and b == 0 and line.startswith(("eval idf 1 c", "eval idfp 1 c")):
                # normalisation by a scale that is not a power of two is rounded
                m = cmp_vec(rec["vals"][k], pm[0], EBOUND) or cmp_mat(rec["jacs"][k], pm[1], EBOUND)
            if m:
                dis.append({"line": line, "model": ans[:400], "impl": {"v": rec["vals"][k], "j": rec["jacs"][k]}, "diff": m})
            else:
                res.traces_validated += 1
        elif kind == "mask":
            _, op, rec = exp
            impl = "E" if "error" in rec else (",".join(str(i) for i in rec["mask"]) or "[]")
            if (ans.startswith("E") and impl != "E") or (not ans.startswith("E") and impl != ans):
                dis.append({"line": line, "model": ans, "impl": impl, "in_scope": op["in_order"]})
            else:
                res.traces_validated += 1
        elif kind == "unmask":
            _, op, rec = exp
            if "error" in rec or ans.startswith("E"):
                if ("error" in rec) != ans.startswith("E"):
                    dis.append({"line": line, "model": ans, "impl": rec.get("error", "value"), "in_scope": op["in_order"]})
                continue
            rows = [[Fraction(t) for t in r.split(",")] if r != "[]" else [] for r in ans.split(";")]
            got = [[F(a) for a in r] for r in rec["unmasked"]]
            if rows != got:
                dis.append({"line": line, "model": ans, "impl": [[float(a) for a in r] for r in got], "in_scope": op["in_order"]})
            else:
                res.traces_validated += 1
    return dis


def compare_with_model(case, obs_list, mask_recs, res: Result) -> list[dict[str, Any]]:
    lines, plan, n_def = model_protocol(case, obs_list, mask_recs)
    return diff_model(lines, plan, n_def, common.run_lean_driver(PID, lines), res)


# --------------------------------------------------------------------------- one case, shrinking, run


def check_one(case, rng_mask: common.Rng | None, only: list[str] | None = None):
    """Run every formulation of the case. Returns (violations[(key,msg)], obs_by_key, mask_recs)."""
    fpts = float_points(case)
    obs_by_key: dict[str, Any] = {}
    bad: list[tuple[str, str]] = []
    mask_recs = []
    sess = case.get("session") or {}
    cfgs = session_order(case, [cfg for cfg in configs(case) if only is None or cfg_key(cfg) in only])
    doe = doe_config(case)
    if doe is not None and not (only is None or "DOE" in only):
        doe = None
    doe_obs = None
    got: dict[str, Any] = {}
    if sess.get("alive"):
        # all the formulations are built first and stay alive; their functions are evaluated point by point, the
        # formulations taking turns (rotating who goes first); the DOE scenario (its own formulation) runs in
        # between or at the end; nothing is dropped before every formulation has been finished
        observers: list[Observer] = []
        for cfg in cfgs:
            if is_process_parallel(cfg):
                got[cfg_key(cfg)] = observe_in_subprocess(case, cfg)
                continue
            o = Observer(case, cfg, fpts)
            o.build()
            observers.append(o)
        if doe is not None and sess.get("doe_first"):
            doe_obs = observe_doe(case, doe[0], doe[1], fpts)
        rot = int(sess.get("rot", 0))
        for i in range(max((o.n_steps() for o in observers), default=0)):
            r = (i * rot) % len(observers)
            for o in observers[r:] + observers[:r]:
                o.step(i)
        if doe is not None and doe_obs is None:
            doe_obs = observe_doe(case, doe[0], doe[1], fpts)
        for o in observers:
            got[cfg_key(o.cfg)] = o.finish()
        del observers
    else:
        for cfg in cfgs:
            got[cfg_key(cfg)] = observe_config(case, cfg, fpts)
        if doe is not None:
            doe_obs = observe_doe(case, doe[0], doe[1], fpts)
    for cfg in configs(case):
        ck = cfg_key(cfg)
        if ck in got:
            obs_by_key[ck] = got[ck]
            bad += oracle_config(case, got[ck])
    bad += oracle_cross(case, obs_by_key)
    if doe_obs is not None:
        obs = doe_obs
        obs_by_key[obs["label"]] = obs
        if obs.get("probe"):
            obs["probe_mismatch"] = bool(oracle_doe(case, obs))
        else:
            bad += oracle_doe(case, obs)
    if rng_mask is not None:
        cfg = {"form": "IDF", "norm": False, "eq": False}
        if expected_names(case, "IDF") is not None:
            try:
                form, _ = make_formulation(case, cfg)
                names = list(form.design_space.variable_names)
                ops = gen_mask_ops(rng_mask, case, names)
                for op, rec in zip(ops, run_mask_ops(case, form, ops)):
                    mask_recs.append((op, rec, names))
                    if op["in_order"]:
                        bad += oracle_mask(case, op, rec)
            except Exception as e:  # noqa: BLE001
                bad.append(("mask-stream-raises", repr(e)[:200]))
    return bad, obs_by_key, mask_recs


def _simplifications(case):
    """Smaller in-scope variants of a case (each re-validated by `valid_case`)."""
    # fewer points
    for i in range(len(case["points"])):
        if len(case["points"]) > 1:
            c = copy.deepcopy(case)
            del c["points"][i]
            yield c
    if case.get("observables"):
        c = copy.deepcopy(case)
        c["observables"] = []
        yield c
    # fewer user constraints
    for i in range(len(case["constraints"])):
        c = copy.deepcopy(case)
        del c["constraints"][i]
        yield c
    # no quadratic terms / no declared linearity / no defaults
    for di, d in enumerate(case["discs"]):
        if d.get("declare_linear"):
            c = copy.deepcopy(case)
            c["discs"][di]["declare_linear"] = []
            yield c
        for oi, (o, s) in enumerate(d["outs"]):
            if s.get("quad"):
                c = copy.deepcopy(case)
                c["discs"][di]["outs"][oi][1]["quad"] = {}
                yield c
            if o not in couplings(case) and o != case["objective"] and all(o not in c_[0] for c_ in case["constraints"]) and all(o not in ns for ns in case.get("observables", [])):
                c = copy.deepcopy(case)
                del c["discs"][di]["outs"][oi]
                c["discs"][di]["declare_linear"] = [t for t in d.get("declare_linear", []) if t != o]
                yield c
    # drop an unused design variable
    for vi, v in enumerate(case["ds"]):
        if v["name"] not in all_inputs(case):
            c = copy.deepcopy(case)
            del c["ds"][vi]
            for p in c["points"]:
                p["x"].pop(v["name"], None)
            yield c
    # plain representations: float64 points, float variables, dense Jacobians
    if case.get("xdtype", "float64") != "float64":
        c = copy.deepcopy(case)
        c["xdtype"] = "float64"
        yield c
    if any(v.get("type") == "integer" for v in case["ds"]):
        c = copy.deepcopy(case)
        for v in c["ds"]:
            v.pop("type", None)
        yield c
    if any(d.get("jac_storage", "dense") != "dense" for d in case["discs"]):
        c = copy.deepcopy(case)
        for d in c["discs"]:
            d["jac_storage"] = "dense"
        yield c
    for di, d in enumerate(case["discs"]):
        if d.get("jac_storage", "dense") == "mixed":
            c = copy.deepcopy(case)
            c["discs"][di]["jac_storage"] = "csr"
            yield c
    if case.get("xmode") == "shared":
        c = copy.deepcopy(case)
        c["xmode"] = "fresh"
        yield c
    # formulations used one after the other, in the canonical order; every input required
    sess = case.get("session") or {}
    if sess.get("alive"):
        c = copy.deepcopy(case)
        c["session"]["alive"] = False
        yield c
    if sess.get("order", "fwd") != "fwd":
        c = copy.deepcopy(case)
        c["session"]["order"] = "fwd"
        yield c
    if any(d.get("optional") for d in case["discs"]):
        c = copy.deepcopy(case)
        for d in c["discs"]:
            d["optional"] = []
        yield c
        for di, d in enumerate(case["discs"]):
            for v in d.get("optional", []):
                c = copy.deepcopy(case)
                c["discs"][di]["optional"] = [w for w in d["optional"] if w != v]
                yield c
    # design-space order: alphabetical
    srt = sorted(case["ds"], key=lambda v: v["name"])
    if srt != case["ds"]:
        c = copy.deepcopy(case)
        c["ds"] = copy.deepcopy(srt)
        yield c


def shrink_case(case, key: str, only: list[str] | None, budget: int = 40):
    cur = case
    calls = 0
    progress = True
    while progress and calls < budget:
        progress = False
        for cand in _simplifications(cur):
            if calls >= budget:
                break
            if not valid_case(cand):
                continue
            calls += 1
            try:
                bad, _, _ = check_one(cand, None, only)
            except Exception:  # noqa: BLE001
                continue
            if any(k == key for k, _ in bad):
                cur = cand
                progress = True
                break
    return cur


def load_corpus() -> list[tuple[str, dict[str, Any]]]:
    d = common.CORPUS_DIR / PID
    out = []
    if d.is_dir():
        for p in sorted(d.glob("*.json")):
            out.append((p.name, json.loads(p.read_text())["case"]))
    return out


def configs_of_key(msg: str) -> list[str] | None:
    """The formulation configurations named at the start of an oracle message (to focus the shrink)."""
    if msg.startswith("DOE["):
        return ["DOE"]
    head = msg.split(":")[0].split(" at ")[0]
    ks = [k.strip() for k in head.split(" vs ")]
    return ks if all(k.startswith(("MDF", "IDF", "Disc")) for k in ks) else None


def focus_configs(case, key: str, only: list[str]) -> list[str] | None:
    """The configurations needed to reproduce a failure: those named by the message when they fail alone, else
    with one other formulation of the case alive in the same process (a failure that needs company), else all."""
    def fails(sub) -> bool:
        try:
            return any(k == key for k, _ in check_one(case, None, sub)[0])
        except Exception:  # noqa: BLE001
            return False

    if fails(only):
        return only
    others = [cfg_key(c) for c in configs(case) if cfg_key(c) not in only and not is_process_parallel(c)] + ["DOE"]
    for ck in others:
        if ck not in only and fails([*only, ck]):
            return [*only, ck]
    return None


def fresh_check(case, only: list[str] | None):
    """The oracle's findings on the case in a fresh interpreter (what `--replay` will see), or None (no answer)."""
    import subprocess
    import sys

    env = dict(os.environ)
    env["PYTHONPATH"] = os.pathsep.join(p for p in [env.get("PYTHONPATH", ""), str(common.VERIF)] if p)
    try:
        r = subprocess.run(
            [sys.executable, "-m", "harness.c17_proc"], input=json.dumps({"mode": "check", "case": case, "only": only}, default=str),
            capture_output=True, text=True, timeout=PROC_TIMEOUT, cwd=str(common.VERIF), env=env,
        )
    except subprocess.TimeoutExpired:
        return None
    for line in reversed(r.stdout.splitlines()):
        if line.startswith("C17-PROC-CHECK "):
            return [tuple(t) for t in json.loads(line[len("C17-PROC-CHECK "):])]
    return None


def reproducible_replay(case, small, key: str, only: list[str] | None, msg: str):
    """(case, configurations, message, note) of the smallest candidate that fails with `key` in a FRESH interpreter.

    The harness process has a history (the formulations of the earlier cases, the earlier runs of this case while
    shrinking); a failure that depends on state shared between formulation objects may not show on the shrunk input
    alone.  Candidates: the shrunk case on the focused configurations, the shrunk case with all its formulations, the
    case as generated with all its formulations."""
    cands = [(small, only)]
    if only is not None:
        cands.append((small, None))
    if small is not case:
        cands.append((case, None))
    answered = False
    for c, o in cands:
        got = fresh_check(c, o)
        if got is None:
            continue
        answered = True
        m = next((mm for k, mm in got if k == key), None)
        if m is not None:
            return c, o, m, ""
    if not answered:
        return small, only, msg, ""
    return case, None, msg, " [seen in the harness process after it had used the formulations of earlier cases; the case alone does not show it in a fresh interpreter]"


def starts_away_from_defaults(case) -> bool:
    """The current value of some design variable differs from the default input value of a discipline reading it."""
    for v in case["ds"]:
        if v["value"] is None or v["name"] in couplings(case):
            continue
        for d in case["discs"]:
            if v["name"] in in_sizes(d) and [P(a) for a in v["value"]] != default_of(d, v["name"]):
                return True
    return False


def run_case(res: Result, case, rng_mask, pending: list | None, origin: str) -> None:
    res.evaluations += 1
    if not valid_case(case):
        res.count("skipped-invalid")
        res.notes.append(f"generated case rejected by the scope predicate ({origin})")
        return
    bad, obs_by_key, mask_recs = check_one(case, rng_mask)
    cpl = couplings(case)
    res.count(f"topo={case['topo']}")
    res.count(f"n_couplings={len(cpl)}")
    res.count(f"n_user_constraints={len(case['constraints'])}")
    res.count(f"ds_dim={min(sum(v['size'] for v in case['ds']), 20)}")
    res.count("declared-linear" if any(d.get("declare_linear") for d in case["discs"]) else "no-declared-linear")
    res.count("objective-is-coupling" if case["objective"] in cpl else "objective-is-function")
    res.count("has-current-value" if all(v["value"] is not None for v in case["ds"]) else "no-current-value")
    if "u" in [v["name"] for v in case["ds"]]:
        res.count("unused-design-variable")
    if any(d.get("defaults") for d in case["discs"]):
        res.count("fixed-parameter")
    res.count(f"caller-input-array={case.get('xmode', 'fresh')}")
    sess = case.get("session") or {}
    res.count("formulations=" + ("alive-together-interleaved" if sess.get("alive") else "one-after-the-other") + f"/built-{sess.get('order', 'fwd')}")
    if sess.get("alive") and doe_config(case) is not None:
        res.count("doe-scenario-" + ("between-build-and-first-evaluation" if sess.get("doe_first") else "after-the-evaluations") + "-of-the-alive-formulations")
    dsn_all = [v["name"] for v in case["ds"]]
    cset = set(cpl)
    pos = [k for k, nm in enumerate(dsn_all) if nm in cset]
    for k, nm in enumerate(dsn_all):
        if nm not in cset and pos:
            res.count("design-variable-declared-" + ("before-the-couplings" if k < pos[0] else "after-the-couplings" if k > pos[-1] else "between-couplings"))
    if case.get("design_only"):
        dd = next((d for d in case["discs"] if d["name"] == case["design_only"]), None)
        if dd is not None:
            res.count("design-only-function-discipline")
            if set(in_sizes(dd)) >= set(used_design_names(case)):
                res.count("design-only-function-discipline-reading-every-design-variable")
    # a discipline whose design-space inputs are exactly the names MDF / DisciplinaryOpt select, placed otherwise in IDF
    exp_mdf = expected_names(case, "MDF")
    for d in case["discs"]:
        xn = [nm for nm in dsn_all if nm in in_sizes(d)]
        if xn == exp_mdf and dsn_all[: len(xn)] != xn and not (set(in_sizes(d)) & cset):
            res.count("idf-function-selects-the-mdf-design-space-at-other-positions")
    n_opt = sum(len(d.get("optional", [])) for d in case["discs"])
    res.count("optional-inputs-in-case", n_opt)
    if n_opt:
        res.count("case-with-optional-inputs")
        for nm in used_design_names(case):
            readers = [d for d in case["discs"] if nm in in_sizes(d)]
            if readers and all(nm in d.get("optional", []) for d in readers):
                res.count("design-variable-optional-in-every-discipline-reading-it")
    res.count(f"caller-point-dtype={case.get('xdtype', 'float64')}")
    ints = int_names(case)
    res.count("design-space-types=" + ("float" if not ints else "all-integer-design-variables" if ints >= set(design_names(case)) else "mixed-integer-float"))
    for d in case["discs"]:
        res.count(f"discipline-jacobian-storage={d.get('jac_storage', 'dense')}")
    res.count("vanishing-jacobian-blocks-in-case", len(case.get("vanish", [])))
    for ck, obs in obs_by_key.items():
        if obs.get("doe") and obs.get("probe"):
            res.count("doe-probe-duplicate-function-names" + ("-mismatch" if obs.get("probe_mismatch") else ""))
            continue
        if obs.get("doe"):
            res.count(f"doe-cfg={cfg_key(obs['cfg'])}")
            res.count(f"doe-normalize_design_space={int(obs.get('rounded', False))}")
            res.count("doe-samples", obs.get("n_samples", 0))
            res.count("doe-gradients-read-from-database", sum(len(r.get("jacs", [])) for r in obs.get("evals", [])))
            continue
        if "skipped" in obs:
            res.count(f"skipped-cfg={ck}")
            res.notes.append(f"{origin}: {ck} not observed ({obs['skipped'][:120]})")
            continue
        res.count(f"cfg={ck}")
        for r in obs.get("evals", []):
            if "vals" in r:
                res.count(f"evaluation-point-array-dtype={r.get('dtype', 'float64')}" + ("@current-value" if r.get("via") else ""))
        for sk, sv in obs.get("stats", {}).items():
            res.count(sk, sv)
        res.count("function-evaluations", sum(len(r.get("vals", [])) for r in obs.get("evals", [])))
        res.count("arrays-held-across-calls", sum(len(r.get("held_vals", [])) + len(r.get("held_jacs", [])) for r in obs.get("evals", [])))
        if obs["cfg"].get("par") and obs["cfg"].get("eq") and "current" in obs:
            res.count("parallel-idf-equilibrium-start-away-from-discipline-defaults" if starts_away_from_defaults(case) else "parallel-idf-equilibrium-start-at-discipline-defaults")
    if len(cpl) >= 1 and sum(v["size"] for v in case["ds"]) >= 3:
        res.nontrivial(json.dumps(case, sort_keys=True, default=str))
    res.sample({"topo": case["topo"], "ds": [f"{v['name']}:{v['size']}" for v in case["ds"]], "objective": case["objective"],
                "constraints": case["constraints"], "configs": list(obs_by_key)})
    seen = set()
    for key, msg in bad:
        if key in seen:
            continue
        seen.add(key)
        only = configs_of_key(msg)
        # the first failing inputs of a run are shrunk; once several replays exist the rest is reported as generated
        if only is not None and len(res.violations) < 6:
            only = focus_configs(case, key, only)
        if len(res.violations) < 6:
            small = shrink_case(case, key, only)
            bad2, _, _ = check_one(small, None, only)
            msg2 = next((m for k, m in bad2 if k == key), msg)
            small, only, msg2, note = reproducible_replay(case, small, key, only, msg2)
            msg2 += note
        else:
            small, msg2 = case, msg
        res.violate("oracle", key, msg2, {"case": small, "origin": origin, "configs": only})
    if pending is not None:
        lines, plan, n_def = model_protocol(case, list(obs_by_key.values()), mask_recs)
        pending.append({"case": case, "origin": origin, "lines": lines, "plan": plan, "n_def": n_def, "bad": bool(bad)})


def flush_model(res: Result, pending: list[dict[str, Any]]) -> None:
    """One Lean driver run for all the pending cases, then the failing-input search on disagreements."""
    if not pending:
        return
    all_lines = [ln for p in pending for ln in p["lines"]]
    answers = common.run_lean_driver(PID, all_lines)
    pos = 0
    for p in pending:
        n = len(p["lines"])
        dis = diff_model(p["lines"], p["plan"], p["n_def"], answers[pos : pos + n], res)
        pos += n
        for d in dis:
            if not d.get("in_scope", True):
                res.count("probe-disagreement")
        in_scope_dis = [d for d in dis if d.get("in_scope", True)]
        if not in_scope_dis:
            continue
        res.disagreements += len(in_scope_dis)
        if p["bad"] or any(v.kind == "correspondence" for v in res.violations):
            continue  # the oracle already reports this case / one failing-input search per run is enough
        case, origin = p["case"], p["origin"]
        found = False
        for cand in _simplifications(case):
            if not valid_case(cand):
                continue
            b2, _, _ = check_one(cand, None)
            if b2:
                key, msg = b2[0]
                res.violate("oracle", key, msg, {"case": cand, "origin": origin + " (neighbour of a model disagreement)"})
                found = True
                break
        if not found:
            d0 = in_scope_dis[0]
            res.violate(
                "correspondence",
                "model-vs-impl",
                f"implementation and Lean model disagree ({d0.get('diff', d0.get('cfg', ''))}); no property-violating input found among the neighbours",
                {"case": case, "protocol_line": d0["line"], "model": d0["model"], "impl": d0["impl"],
                 "correspondence": "Driver/C17.lean", "origin": origin},
            )
    pending.clear()


def gen_valid_case(rng, topo: str | None = None) -> dict[str, Any]:
    """Rejection sampling inside the scope predicate (degenerate draws are rare)."""
    for _ in range(50):
        case = gen_case(rng, topo)
        if valid_case(case):
            return case
    raise RuntimeError("generator cannot produce an in-scope case")


# --------------------------------------------------------------------------- optimisation stream (rounded, 2^-20)

OBOUND = Fraction(1, 2**20)


def fsolve_any(a, b):
    """A particular solution of the (possibly singular, consistent) system a z = b; None if inconsistent."""
    n = len(a)
    m = len(a[0]) if a else 0
    aug = [list(a[i]) + [b[i]] for i in range(n)]
    piv_cols = []
    r = 0
    for col in range(m):
        piv = next((k for k in range(r, n) if aug[k][col] != 0), None)
        if piv is None:
            continue
        aug[r], aug[piv] = aug[piv], aug[r]
        pv = aug[r][col]
        aug[r] = [v / pv for v in aug[r]]
        for k in range(n):
            if k != r and aug[k][col] != 0:
                f = aug[k][col]
                aug[k] = [x - f * y for x, y in zip(aug[k], aug[r])]
        piv_cols.append(col)
        r += 1
        if r == n:
            break
    if any(all(v == 0 for v in row[:m]) and row[m] != 0 for row in aug):
        return None
    z = [Fraction(0)] * m
    for i, col in enumerate(piv_cols):
        z[col] = aug[i][m]
    return z


def gen_opt_case(rng: common.Rng):
    """A convex instance: objective `fo = sum q (z - a)^2` over the inputs z of one discipline, no user
    constraint, wide bounds.  Returns (case, exact optimal value) or None."""
    for _ in range(30):
        case = gen_valid_case(rng, rng.pick(["s2", "s2", "s3ring", "s2w", "weak2"]))
        cpl = set(couplings(case))
        cands = [d for d in case["discs"] if any(n in cpl for n, _ in d["ins"])]
        if not cands:
            continue
        d = cands[-1]
        lin, quad, const = {}, {}, Fraction(0)
        terms = []
        for v, m in d["ins"]:
            qs = [rng.pick([Fraction(1, 4), Fraction(1, 2), Fraction(1), Fraction(2)]) for _ in range(m)]
            as_ = [_dy(rng, -2, 2, 4) for _ in range(m)]
            quad[v] = [[rat(q) for q in qs]]
            lin[v] = [[rat(-2 * q * a) for q, a in zip(qs, as_)]]
            const += sum((q * a * a for q, a in zip(qs, as_)), Fraction(0))
            terms += [(v, c, qs[c], as_[c]) for c in range(m)]
        d["outs"].append(["fo", {"const": [rat(const)], "lin": lin, "quad": quad}])
        case["objective"] = "fo"
        case["constraints"] = []
        for v in case["ds"]:
            v.pop("type", None)  # a gradient-based optimiser: continuous variables
            v["lb"] = ["-64"] * v["size"]
            v["ub"] = ["64"] * v["size"]
            if v["value"] is None:
                v["value"] = [rat(_dy(rng, -2, 2, 4)) for _ in range(v["size"])]
        case["ds"] = [v for v in case["ds"] if v["name"] in all_inputs(case)]
        case["points"] = []
        if relevant_disciplines(case) != {dd["name"] for dd in case["discs"]}:
            continue
        udn = used_design_names(case)
        zero = {n: [Fraction(0)] * var_size(case, n) for n in udn}
        sol = exact_mda(case, zero)
        if sol is None:
            continue
        y0, W, _ = sol
        off, tot = layout(case, udn)
        rows, rhs, wts = [], [], []
        for v, c, q, a in terms:
            row = [Fraction(0)] * tot
            if v in off:
                row[off[v] + c] = Fraction(1)
                r0 = Fraction(0)
            elif v in y0:
                for n in udn:
                    for cc in range(var_size(case, n)):
                        row[off[n] + cc] = W[v, n][c][cc]
                r0 = y0[v][c]
            else:
                r0 = default_of(d, v)[c]
            rows.append(row)
            rhs.append(r0 - a)
            wts.append(q)
        ata = [[sum((wts[k] * rows[k][i] * rows[k][j] for k in range(len(rows))), Fraction(0)) for j in range(tot)] for i in range(tot)]
        atb = [-sum((wts[k] * rows[k][i] * rhs[k] for k in range(len(rows))), Fraction(0)) for i in range(tot)]
        xs = fsolve_any(ata, atb)
        if xs is None:
            continue
        fstar = sum((wts[k] * (sum((rows[k][i] * xs[i] for i in range(tot)), Fraction(0)) + rhs[k]) ** 2 for k in range(len(rows))), Fraction(0))
        xd = {n: xs[off[n] : off[n] + var_size(case, n)] for n in udn}
        ys = exact_mda(case, xd)[0]
        if any(abs(a) > 48 for v in [*xd.values(), *ys.values()] for a in v):
            continue
        # the minimum-norm-free particular solution may be far from the start; fine for a convex quadratic
        if not valid_case(case):
            continue
        return case, fstar
    return None


OPT_TIMEOUT = 60  # seconds for the three scenarios of one optimisation case (normally < 10 s)


def optimise_one(case, settings) -> dict[str, Any]:
    """Run one MDO scenario (SLSQP) on the case; used by `harness/c17_proc.py` in a helper interpreter."""
    from gemseo.scenarios.mdo_scenario import MDOScenario

    try:
        sc = MDOScenario(build_discs(case), case["objective"], build_ds(case), **settings)
        sc.execute(algo_name="SLSQP", max_iter=400, ftol_rel=1e-15, ftol_abs=1e-15, xtol_rel=1e-15, xtol_abs=1e-15)
        r = sc.optimization_result
        return {"f": float(r.f_opt), "feasible": bool(r.is_feasible)}
    except Exception as e:  # noqa: BLE001
        return {"error": f"{common.exc_class(e)} {e!r}"[:300]}


def start_optimisations(case, cfgs):
    """The optimiser is third-party compiled code (SciPy's SLSQP can cycle for ever on a degenerate problem without
    returning to the interpreter, out of reach of any in-process time-out): it runs in a helper interpreter; the
    configurations it has not finished within OPT_TIMEOUT are skipped (no verdict).  Returns (process, start time)."""
    import subprocess
    import sys

    env = dict(os.environ)
    env["PYTHONPATH"] = os.pathsep.join(p for p in [env.get("PYTHONPATH", ""), str(common.VERIF)] if p)
    proc = subprocess.Popen([sys.executable, "-m", "harness.c17_proc"], stdin=subprocess.PIPE, stdout=subprocess.PIPE,
                            stderr=subprocess.DEVNULL, text=True, cwd=str(common.VERIF), env=env)
    proc.stdin.write(json.dumps({"mode": "opt", "case": case, "cfgs": cfgs}, default=str))
    proc.stdin.close()
    proc.stdin = None
    return proc, time.time()


def collect_optimisations(handle) -> dict[str, dict[str, Any]]:
    import subprocess

    proc, t0 = handle
    try:
        out, _ = proc.communicate(timeout=max(1.0, t0 + OPT_TIMEOUT - time.time()))
    except subprocess.TimeoutExpired:
        proc.kill()
        out, _ = proc.communicate()
    got: dict[str, dict[str, Any]] = {}
    for line in (out or "").splitlines():
        if line.startswith("C17-PROC-OPT "):
            d = json.loads(line[len("C17-PROC-OPT "):])
            got[d["ck"]] = d["result"]
    return got


def start_opt_case(case, rng: common.Rng):
    mda = rng.pick(["MDAJacobi", "MDAGaussSeidel", "MDAChain"])
    st = dict(MDA_SETTINGS)
    if mda == "MDAChain":
        st["inner_mda_settings"] = dict(MDA_SETTINGS)
    cfgs = [("MDF/" + mda, {"formulation_name": "MDF", "main_mda_name": mda, "main_mda_settings": st}),
            ("IDF/norm=1", {"formulation_name": "IDF", "normalize_constraints": True}),
            ("IDF/norm=0", {"formulation_name": "IDF", "normalize_constraints": False})]
    return cfgs, start_optimisations(case, cfgs)


def finish_opt_case(res: Result, case, fstar: Fraction, started, origin: str) -> None:
    cfgs, handle = started
    res.evaluations += 1
    res.count("optimisation-case")
    got = collect_optimisations(handle)
    for ck, _settings in cfgs:
        key = "optimum-" + ck.split("/")[0].lower()
        r = got.get(ck)
        if r is None:
            res.count(f"skipped-opt-cfg={ck}")
            res.notes.append(f"{origin}: {ck}: the optimiser did not return within {OPT_TIMEOUT} s (skipped, no verdict)")
            continue
        if "error" in r:
            ok = False
            what = f"{ck}: the scenario raised {r['error']}"[:400]
        else:
            f = r["f"]
            ok = bool(r["feasible"]) and near(f, fstar, OBOUND)
            what = f"{ck}: optimum {f!r} (feasible={r['feasible']}) instead of {float(fstar)!r} ({fstar})"
        res.count(f"opt-cfg={ck}")
        if ok:
            res.traces_validated += 1
        else:
            res.violate("oracle", key, what, {"opt_case": case, "fstar": rat(fstar), "origin": origin, "cfg": ck})


def run_opt_case(res: Result, case, fstar: Fraction, rng: common.Rng, origin: str) -> None:
    finish_opt_case(res, case, fstar, start_opt_case(case, rng), origin)


def gen_missing_coupling_case(rng) -> dict[str, Any]:
    """A design space lacking one coupling: IDF must refuse it, MDF does not need it."""
    case = gen_valid_case(rng, rng.pick(["s2", "s3ring", "s2w"]))
    cpl = couplings(case)
    k = rng.pick(cpl)
    case["ds"] = [v for v in case["ds"] if v["name"] != k]
    for p in case["points"]:
        if p["t"] is not None:
            p["t"].pop(k, None)
    case["topo"] += "-missing-coupling"
    return case


def run(ctx) -> Result:
    res = Result(PID)
    res.rule = (
        "random dyadic coupled systems (2-3 disciplines; strong 2-cycles, 3-rings, full, strong+weak, feed-forward; sizes 1-3; "
        "scrambled design-space order); a case is non-trivial when it has >= 1 coupling and a design space of dimension >= 3; "
        "distinct by full case content. Every case is evaluated under 4 MDF, 2-4 sequential IDF, 1-3 parallel IDF (+ DisciplinaryOpt) "
        "configurations at 4-6 points on the same function objects (every returned array held until the last call), and one of "
        "these formulations is run through a DOE scenario with eval_jac whose database is read back. Points are passed as float64, "
        "int64 (integer coordinates) or float32 arrays and through evaluate_functions() at the current value; design variables "
        "float, all integer or mixed; discipline Jacobians dense or value-built sparse, with blocks that vanish at one point of the history. "
        "The formulations of a case are used one after the other or are all alive together (interleaved evaluations; built MDF-first, "
        "IDF-first or mixed); 40 % of the cases have a discipline computing functions of design variables only; design variables / fixed "
        "parameters may be optional inputs of the disciplines."
    )
    res.assumptions = [
        "coupling equations are affine with max-norm of the coupling matrix <= 1/2 (well-posed, contractive); objective/constraints affine or quadratic",
        "MDA tolerance 1e-14; MDF / DisciplinaryOpt values and derivatives compared with the exact rational solution up to 2^-30 (relative to max(1,|exact|))",
        "IDF compared exactly at dyadic points (power-of-two normalisation scales), up to 2^-40 otherwise",
        "self-coupled disciplines, BiLevel and differentiated_input_names_substitute are outside the generated scope",
        "parallel IDF: fixed (non-design) inputs are private to one discipline, so the merged defaults of the MDOParallelChain are the disciplines' own defaults",
        "DOE stream: a run in which two functions of the problem have the same name (user constraint on a coupling = name of IDF's consistency constraint; the database is indexed by name) is a probe without verdict",
        "DOE stream: only the case points inside the bounds are sampled; with normalize_design_space=True values and gradients are compared up to 2^-40 (normalisation round trip)",
        "integer design variables are never couplings and hold integers at every point; a point is passed as an int64 (float32) array only when every coordinate is an integer (exactly representable in float32)",
        "DOE stream on a design space with integer variables: samples given in the design space (normalize_design_space=False)",
        "sparse Jacobian blocks are csr_array / csc_array / coo_matrix built from the values; coo_array is not generated (it cannot be indexed and GEMSEO reads the first row of a sparse block by indexing)",
        "optional inputs (not in required_names, with a default value) are design variables or fixed parameters of the harness disciplines, never coupling inputs",
        "sessions: at most the formulations of one case (<= 10 + the DOE scenario's) are alive together; a replay is the smallest candidate that fails in a fresh interpreter",
        "mask/unmask round trip is asserted only for masking names listed in the order of the reference names (the formulations only form such calls); other orders are probed against the model",
    ]
    rng = ctx.rng
    use_lean = (common.LEAN_DIR / "Driver" / f"{PID}.lean").exists() and not os.environ.get("C17_NO_LEAN")
    pending: list | None = [] if use_lean else None
    n = 400 if ctx.thorough else 36
    for name, case in load_corpus():
        run_case(res, case, common.make_rng(ctx.seed, "corpus-mask-" + name), pending, f"corpus/{name}")
        res.count("corpus")
    k = 0
    while k < n and time.time() < ctx.deadline:
        if k % 9 == 8:
            case = gen_missing_coupling_case(rng)
        else:
            case = gen_valid_case(rng)
        run_case(res, case, common.make_rng(ctx.seed, f"mask-{k}"), pending, f"seed {ctx.seed} case {k}")
        k += 1
        if pending is not None and len(pending) >= 60:
            flush_model(res, pending)
    if pending is not None:
        flush_model(res, pending)
    # optimisation stream: each formulation reaches the exact optimal value of a convex instance
    # (the scenarios run in helper interpreters, five at a time)
    orng = common.make_rng(ctx.seed, "C17-opt")
    batch: list[Any] = []

    def drain() -> None:
        for case_, fstar_, started_, origin_ in batch:
            finish_opt_case(res, case_, fstar_, started_, origin_)
        batch.clear()

    for k in range(40 if ctx.thorough else 5):
        if time.time() > ctx.deadline:
            break
        g = gen_opt_case(orng)
        if g is not None:
            batch.append((g[0], g[1], start_opt_case(g[0], orng), f"seed {ctx.seed} optimisation case {k}"))
        if len(batch) >= 5:
            drain()
    drain()
    return res


def replay(path: str) -> int:
    data = json.loads(open(path).read())
    rp = data["replay"]
    if "opt_case" in rp:
        res = Result(PID)
        run_opt_case(res, rp["opt_case"], Fraction(rp["fstar"]), common.make_rng(0, "replay"), "replay")
        for v in res.violations:
            print("ORACLE FAILS:", v.key, v.what)
        return 1 if res.violations else 0
    if "case" not in rp:
        print(json.dumps(rp, indent=1)[:4000])
        return 1
    case = rp["case"]
    print("in scope:", valid_case(case))
    bad, obs, _ = check_one(case, None, rp.get("configs"))
    for ck, o in obs.items():
        print(ck, "names=", o.get("names"), "error=", o.get("error"))
    for k, m in bad:
        print("ORACLE FAILS:", k, m[:500])
    if data.get("kind") == "correspondence":
        res = Result(PID)
        dis = compare_with_model(case, list(obs.values()), [], res)
        for d in dis:
            print("MODEL DISAGREES:", json.dumps(d, default=str)[:800])
        return 1 if dis or bad else 0
    return 1 if bad else 0
