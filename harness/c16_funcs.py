"""C16 helper objects: harness functions and harness disciplines (must live in a real module).

`PolyFunction` is the function handed to the gradient approximators.  It evaluates integer
coefficient polynomials *exactly* (``fractions.Fraction`` / Gaussian rationals) from the exact
value of its float (or complex) argument and rounds once on return, so it is a true mathematical
function plus one rounding; it records every point at which it is called.
"""

from __future__ import annotations

import math
import os
from fractions import Fraction
from typing import Any

import numpy as np

from gemseo.core.discipline import Discipline

# A polynomial is a list of monomials [coef, [e_0, ..., e_{n-1}]] with Fraction-able coefs.


def _F(v: float) -> Fraction:
    return Fraction(*float(v).as_integer_ratio())


def is_f64(fr: Fraction) -> bool:
    """Whether the rational is exactly a (normal or subnormal) float64."""
    if fr == 0:
        return True
    try:
        return Fraction(*float(fr).as_integer_ratio()) == fr
    except OverflowError:
        return False


def eval_poly(poly, x: list[Fraction]) -> Fraction:
    tot = Fraction(0)
    for coef, exps in poly:
        t = Fraction(coef)
        for xi, e in zip(x, exps):
            if e:
                t *= xi**e
        tot += t
    return tot


def _cmul(a, b):
    return (a[0] * b[0] - a[1] * b[1], a[0] * b[1] + a[1] * b[0])


def eval_poly_c(poly, z: list[tuple[Fraction, Fraction]]) -> tuple[Fraction, Fraction]:
    re, im = Fraction(0), Fraction(0)
    for coef, exps in poly:
        t = (Fraction(coef), Fraction(0))
        for zi, e in zip(z, exps):
            for _ in range(e):
                t = _cmul(t, zi)
        re += t[0]
        im += t[1]
    return re, im


class PolyFunction:
    """Vector polynomial function R^n -> R^m recording its call points."""

    def _log(self, re, im) -> None:
        if self.record_fd is not None:
            line = ",".join(str(v) for v in re) + "|" + ",".join(str(v) for v in im) + "\n"
            os.write(self.record_fd, line.encode())

    def __init__(
        self, polys, scalar_out: bool = False, record: bool = True, record_fd: int | None = None, premap=None
    ) -> None:
        # premap: per component (lb, width) or None; the polynomials then act on t = (x - lb) / width
        # (the function is defined in physical space, the polynomials in the normalised space)
        self.premap = premap
        self.polys = polys
        self.scalar_out = scalar_out
        self.record = record
        # file descriptor (O_APPEND) shared with forked workers: call points of a multiprocessing run
        self.record_fd = record_fd
        self.calls: list[tuple[tuple[Fraction, ...], tuple[Fraction, ...]]] = []
        self.inexact = 0
        self.fmax = Fraction(0)

    def __call__(self, x: Any, scale: int = 1, **kwargs: Any):
        res = self._evaluate(x)
        return res * scale if scale != 1 else res

    def _evaluate(self, x: Any):
        x = np.atleast_1d(np.asarray(x))
        if np.iscomplexobj(x):
            z = [(_F(v.real), _F(v.imag)) for v in x]
            if self.premap:
                z = [
                    (a, b) if pm is None else ((a - pm[0]) / pm[1], b / pm[1])
                    for (a, b), pm in zip(z, self.premap)
                ]
            if self.record:
                self.calls.append((tuple(a for a, _ in z), tuple(b for _, b in z)))
            self._log([a for a, _ in z], [b for _, b in z])
            out = []
            for p in self.polys:
                re, im = eval_poly_c(p, z)
                # only the imaginary part is consumed by the complex step
                if not is_f64(im):
                    self.inexact += 1
                self.fmax = max(self.fmax, abs(im))
                out.append(complex(float(re), float(im)))
            res = np.array(out, dtype=complex)
        else:
            xs = [_F(v) for v in x]
            if self.premap:
                xs = [a if pm is None else (a - pm[0]) / pm[1] for a, pm in zip(xs, self.premap)]
            if self.record:
                self.calls.append((tuple(xs), tuple(Fraction(0) for _ in xs)))
            self._log(xs, [Fraction(0) for _ in xs])
            out = []
            for p in self.polys:
                v = eval_poly(p, xs)
                if not is_f64(v):
                    self.inexact += 1
                self.fmax = max(self.fmax, abs(v))
                out.append(float(v))
            res = np.array(out, dtype=float)
        if self.scalar_out:
            return res[0]
        return res


def read_call_log(path: str):
    """Call points written by `PolyFunction._log` (possibly from several processes)."""
    calls = []
    with open(path) as fh:
        for line in fh:
            line = line.strip()
            if not line:
                continue
            re, im = line.split("|")
            calls.append((tuple(Fraction(t) for t in re.split(",")), tuple(Fraction(t) for t in im.split(","))))
    return calls


class PolyDiscipline(Discipline):
    """Discipline whose outputs are polynomials of the concatenated inputs.

    ``in_sizes``/``out_sizes``: ordered ``{name: size}``; ``polys``: one polynomial per flat output
    component over the flat input vector.  ``jac_error``: optional ``{(out_flat, in_flat): delta}``
    added to the analytic Jacobian (to test that ``check_jacobian`` rejects wrong entries).
    """

    default_grammar_type = Discipline.GrammarType.SIMPLE

    def __init__(self, in_sizes, out_sizes, polys, x0, jac_error=None, name: str = "PolyDiscipline") -> None:
        super().__init__(name=name)
        self.in_sizes = dict(in_sizes)
        self.out_sizes = dict(out_sizes)
        self.polys = polys
        self.jac_error = dict(jac_error or {})
        self.io.input_grammar.update_from_types({k: np.ndarray for k in self.in_sizes})
        self.io.output_grammar.update_from_types({k: np.ndarray for k in self.out_sizes})
        defaults = {}
        pos = 0
        for k, s in self.in_sizes.items():
            defaults[k] = np.array([float(v) for v in x0[pos : pos + s]], dtype=float)
            pos += s
        self.io.input_grammar.defaults = defaults
        self.calls: list[tuple[Fraction, ...]] = []
        self.inexact = 0

    def _flat(self, data):
        return np.concatenate([np.atleast_1d(np.asarray(data[k])) for k in self.in_sizes])

    def _run(self, input_data):
        x = self._flat(input_data)
        if np.iscomplexobj(x) and np.any(x.imag != 0):
            z = [(_F(v.real), _F(v.imag)) for v in x]
            self.calls.append(tuple(a for a, _ in z))
            vals = []
            for p in self.polys:
                re, im = eval_poly_c(p, z)
                vals.append(complex(float(re), float(im)))
            arr = np.array(vals, dtype=complex)
        else:
            xs = [_F(v.real) for v in x]
            self.calls.append(tuple(xs))
            vals = []
            for p in self.polys:
                v = eval_poly(p, xs)
                if not is_f64(v):
                    self.inexact += 1
                vals.append(float(v))
            arr = np.array(vals, dtype=float)
        out = {}
        pos = 0
        for k, s in self.out_sizes.items():
            out[k] = arr[pos : pos + s]
            pos += s
        return out

    def _compute_jacobian(self, input_names=(), output_names=()) -> None:
        x = [_F(v.real) for v in self._flat(self.io.data)]
        n = len(x)
        full = np.zeros((len(self.polys), n))
        for r, p in enumerate(self.polys):
            for c in range(n):
                full[r, c] = float(eval_poly(poly_partial(p, c), x))
        for (r, c), d in self.jac_error.items():
            full[r, c] += float(d)
        self.jac = {}
        ro = 0
        for on, os_ in self.out_sizes.items():
            self.jac[on] = {}
            co = 0
            for iname, is_ in self.in_sizes.items():
                self.jac[on][iname] = full[ro : ro + os_, co : co + is_].copy()
                co += is_
            ro += os_


def poly_partial(poly, c: int):
    """d/dx_c of a polynomial (exact)."""
    out = []
    for coef, exps in poly:
        e = exps[c]
        if e == 0:
            continue
        new = list(exps)
        new[c] = e - 1
        out.append([Fraction(coef) * e, new])
    return out


def poly_abs_sup(poly, x: list[Fraction], c: int, radius: Fraction) -> Fraction:
    """Upper bound of |poly| on the segment {x + t e_c : |t| <= radius}."""
    tot = Fraction(0)
    for coef, exps in poly:
        t = abs(Fraction(coef))
        for l, (xi, e) in enumerate(zip(x, exps)):
            if e:
                t *= ((abs(xi) + radius) if l == c else abs(xi)) ** e
        tot += t
    return tot


def finite(v) -> bool:
    try:
        return math.isfinite(float(v))
    except (TypeError, ValueError):
        return False
