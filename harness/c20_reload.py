"""Reload stream of the C20 check: the save/load helpers used MORE THAN ONCE on the same file.

Every other stream restores an object once.  The property speaks of the save/load helpers
(`gemseo.to_pickle` / `gemseo.from_pickle`, `gemseo.import_discipline`): a file written once is a value; every
restoration from it is a *fresh* object equal to what was saved, whatever happened to the objects restored from
the same file earlier in the process.  A case:

    O = object with a life;  to_pickle(O, F)                      (V0 = public view of O at that moment)
    L1 = load(F);  check L1;  use L1 (executions, linearizations, defaults/settings edited: the *script*)
    L2 = load(F);  check L2;  use L2  ...  (2 or 3 loads of the unchanged file, by from_pickle / import_discipline)
    use O with the same script                                    (reference of the behaviour: never serialized)
    [rewrite: to_pickle(O as it is now, F); load(F) = the current O, not an earlier restoration]

Oracle, from the property text ("exposes the same grammars, defaults and settings ... before and after it has been
used", "never shares in-memory mutable state", "counters carry over as values"):

  reload:same-object          a load returns an object that an earlier load (or the original) already returned
  reload:shared-state         a mutable object is reachable from two loads (identity scan of c20_observe)
  reload:view-differs         the public view of load k (taken before it is used) is not V0
  reload:behaviour-differs    load k does not answer the script as the original does
  reload:view-differs-after-use  ... or differs from the original after the same script
  reload:use-affects-earlier-load  using load k changed the view of an earlier load
  reload:rewritten-file-stale a file written again does not give back the object written last

Kinds: discipline (every recipe of the catalogue), design space, function, problem, scenario, grammar, cache.
A case is the JSON-able dict of the base kind (same dimensions as the other differential streams) with
`"kind": "reload", "what": <base kind>, "loads": 2|3, "helper": "from_pickle"|"import_discipline", "rewrite": bool`.
"""

from __future__ import annotations

from pathlib import Path
from typing import Any

import numpy as np

from harness import c20_diff as D
from harness import c20_diff2 as D2
from harness import c20_observe as OBS
from harness import common
from harness.c20_diff import Outcome
from harness.c20_diff import _call

_N = [0]

# script of a discipline: what is done to every restored object (and to the original) after it was checked
DISC_SCRIPT_EDITS = (["in-default", 0], ["in-optional", 0], ["lin-mode", 1], ["in-default", 1])


def _exc_or(st_r):
    st, r = st_r
    return OBS.canon(r) if st == "ok" else ("exc", str(r).split(":")[0])


# --------------------------------------------------------------------------- adapters (one per kind)


class DisciplineAdapter:
    def build(self, base, tmp, out):
        rng = common.make_rng(int(base.get("seed", 0)), "c20-inputs")
        lived = D.live_discipline(base, tmp, rng, out)
        if lived is None:
            return None
        disc, pre_inputs, _done, _seen = lived
        inputs = [D.gen_inputs(disc, rng) for _ in range(int(base.get("n_post", 2)))]
        if pre_inputs and base.get("moment", "fresh") != "fresh":
            inputs.append(pre_inputs[-1])  # an input the saved object has in its cache
        return {"obj": disc, "inputs": inputs, "edits": base.get("script_edits", [list(e) for e in DISC_SCRIPT_EDITS])}

    view = staticmethod(OBS.discipline_view)

    def use(self, disc, st):
        rec = []
        for x in st["inputs"]:
            rec.append(D._exec_view(disc, x)[0])
            rec.append(D._lin_view(disc, x)[0])
        done = D.apply_edits(disc, st["edits"], st["inputs"])
        rec.append(("edits", OBS.canon([(k, n, v) for k, n, v in done])))
        st_r = _call(disc.execute)  # with the (edited) defaults
        rec.append(("defaults", OBS.canon(dict(st_r[1])) if st_r[0] == "ok" else ("exc", st_r[1].split(":")[0])))
        return tuple(rec)

    def after(self, disc):
        return D._strip_runtime(OBS.discipline_view(disc))


class DesignSpaceAdapter:
    def build(self, base, tmp, out):
        rng = common.make_rng(int(base.get("seed", 0)), "c20-ds")
        ds = D2.build_design_space(base, rng)
        if base.get("moment") == "used":
            D2._ds_probe(ds, [[0.25] * ds.dimension])
            n0 = ds.variable_names[0]
            ds.set_lower_bound(n0, np.full(ds.get_size(n0), -3.0))
        pts = [[rng.randint(-8, 16) / 4.0 for _ in range(ds.dimension)] for _ in range(2)]
        return {"obj": ds, "pts": pts}

    view = staticmethod(D2.design_space_view)

    def use(self, ds, st):
        rec = [D2._ds_probe(ds, st["pts"])]
        n0 = ds.variable_names[0]
        rec.append(_call(ds.set_upper_bound, n0, np.full(ds.get_size(n0), 9.0))[0])
        rec.append(_call(ds.set_current_value, {n0: np.full(ds.get_size(n0), 0.0 if ds.get_type(n0) == "integer" else 0.125)})[0])
        rec.append(_call(ds.add_variable, "added", 1, lower_bound=0.0, upper_bound=1.0, value=np.array([0.5]))[0])
        return tuple(rec)

    after = view


class FunctionAdapter:
    def build(self, base, tmp, out):
        rng = common.make_rng(int(base.get("seed", 0)), "c20-fn")
        try:
            f = D2.build_function(base, rng)
        except Exception as e:  # noqa: BLE001
            out.status, out.detail = "noinst", f"{type(e).__name__}: {e}"
            return None
        dim_in = 1 if base.get("shape") == "lin-restrict" else 2
        pts = [[rng.randint(-8, 8) / 4.0 for _ in range(dim_in)] for _ in range(3)]
        if base.get("moment") == "used":
            D2.function_view(f, pts[:1])
        return {"obj": f, "pts": pts}

    def view(self, f):
        v = D2.function_view(f, [])
        v["n_calls"] = getattr(f, "n_calls", None)
        return v

    def use(self, f, st):
        rec = [D2.function_view(f, st["pts"])["evals"]]
        f.name = f.name + "_renamed"  # a setting edited on the restored object
        return tuple(rec)

    after = view


class ProblemAdapter:
    def build(self, base, tmp, out):
        rng = common.make_rng(int(base.get("seed", 0)), "c20-pb")
        p = D2.build_problem(base, rng)
        dim = p.design_space.dimension
        lb, ub = p.design_space.get_lower_bounds(), p.design_space.get_upper_bounds()

        def point():
            return [float(lb[i] + (ub[i] - lb[i]) * rng.randint(0, 16) / 16.0) for i in range(dim)]

        moment = base.get("moment", "fresh")
        if moment == "evaluated":
            D2._eval_problem(p, [point() for _ in range(2)])
        elif moment == "solved":
            r = D2._run_algo(p, base)
            if isinstance(r, tuple) and r and r[0] == "exc":
                out.status, out.detail = "skipped", "original cannot be solved: " + r[2]
                return None
        return {"obj": p, "pts": [point() for _ in range(2)], "base": base}

    view = staticmethod(D2.problem_view)

    def use(self, p, st):
        rec = [D2._eval_problem(p, st["pts"])]
        r = D2._run_algo(p, st["base"])
        rec.append(OBS.canon(r[:2] if isinstance(r, tuple) and r and r[0] == "exc" else r))
        return tuple(rec)

    after = view


class ScenarioAdapter:
    def build(self, base, tmp, out):
        from gemseo.core.execution_statistics import ExecutionStatistics

        ExecutionStatistics.is_enabled = True
        try:
            sc = D2.build_scenario(base)
        except Exception as e:  # noqa: BLE001
            out.status, out.detail = "noinst", f"{type(e).__name__}: {e}"
            return None
        if base.get("moment") == "executed":
            st, r = _call(sc.execute)
            if st == "exc":
                out.status, out.detail = "skipped", "original cannot execute: " + r
                return None
        return {"obj": sc}

    view = staticmethod(D2.scenario_view)

    def use(self, sc, st):
        return (_call(sc.execute)[0],)

    def after(self, sc):
        return D2._no_duration(D2.scenario_view(sc))


class GrammarAdapter:
    def build(self, base, tmp, out):
        rng = common.make_rng(int(base.get("seed", 0)), "c20-gr")
        try:
            g = D2.build_grammar(base, rng)
        except Exception as e:  # noqa: BLE001
            out.status, out.detail = "noinst", f"{type(e).__name__}: {e}"
            return None
        return {"obj": g, "seed": int(base.get("seed", 0))}

    view = staticmethod(OBS.grammar_view)

    def use(self, g, st):
        rng = common.make_rng(st["seed"], "c20-reload-gr")
        rec = [tuple(OBS.validate_outcome(g, data) for data in OBS.grammar_probe_data(g, rng))]
        r = [_call(g.update_from_names, ["zz"])[0], _call(g.defaults.update, {"zz": np.array([1.0])})[0], _call(g.required_names.discard, "zz")[0]]
        names = sorted(g.required_names)
        if names:
            r.append(_call(g.required_names.discard, names[0])[0])
        r.append(_call(g.update_from_types, {"yy": int})[0])
        rec.append(tuple(r))
        rec.append(tuple(OBS.validate_outcome(g, data) for data in OBS.grammar_probe_data(g, rng)))
        return tuple(rec)

    after = view


class CacheAdapter:
    def build(self, base, tmp, out):
        from gemseo.caches.factory import CacheFactory

        rng = common.make_rng(int(base.get("seed", 0)), "c20-ca")
        tol = [0.0, 0.0, 2.0**-20, 0.125][rng.randint(0, 3)]
        cache = CacheFactory().create("SimpleCache", tolerance=tol, name="mycache")  # (MemoryFullCache: known finding, HDF5Cache: attached to its file by design)
        for k in range(int(base.get("n_entries", rng.randint(0, 3)))):
            x = {"x": np.array([float(k), rng.randint(-4, 4) / 4.0]), "p": np.array([1.0])}
            cache.cache_outputs(x, {"y": np.array([2.0 * k + 0.5]), "z": np.array([1.0, float(k)])})
        return {"obj": cache}

    view = staticmethod(OBS.cache_view)

    def use(self, cache, st):
        xq = {"x": np.array([0.0, 0.0]), "p": np.array([1.0])}
        if len(cache):
            xq = dict(list(cache.get_all_entries())[0].inputs)
        e = cache[xq]
        rec = [OBS.canon(dict(e.outputs or {}))]
        cache.cache_outputs({"x": np.array([9.0, 9.0]), "p": np.array([1.0])}, {"y": np.array([1.0]), "z": np.array([0.0, 0.0])})
        cache.tolerance = 2.0**-6
        cache.name = "renamed"
        return tuple(rec)

    after = view


ADAPTERS = {
    "discipline": DisciplineAdapter(),
    "design_space": DesignSpaceAdapter(),
    "function": FunctionAdapter(),
    "problem": ProblemAdapter(),
    "scenario": ScenarioAdapter(),
    "grammar": GrammarAdapter(),
    "cache": CacheAdapter(),
}


# --------------------------------------------------------------------------- the case


def _loader(case):
    if case.get("helper") == "import_discipline" and case.get("what") == "discipline":
        from gemseo import import_discipline

        return import_discipline, "import_discipline"
    if case.get("helper") == "gemseo.from_pickle":
        from gemseo import from_pickle

        return from_pickle, "gemseo.from_pickle"
    from gemseo.utils.pickle import from_pickle

    return from_pickle, "from_pickle"


def run_reload_case(case: dict[str, Any], tmp: Path) -> Outcome:
    from gemseo.utils.pickle import to_pickle

    out = Outcome()
    what = case["what"]
    ad = ADAPTERS[what]
    base = {k: v for k, v in case.items() if k not in ("what", "loads", "helper", "rewrite")}
    base["kind"] = what
    st = ad.build(base, tmp, out)
    if st is None:
        return out
    if "ops" in base and "ops" not in case:
        case["ops"] = base["ops"]  # (grammar lives are drawn by the builder: kept for the replay)
    obj = st["obj"]
    out.info["class"] = type(obj).__name__
    n_loads = int(case.get("loads", 2))
    out.info["loads"] = n_loads
    load, helper = _loader(case)
    out.info["helper"] = helper
    _N[0] += 1
    path = Path(tmp) / f"reload{_N[0]}.pkl"
    blind = bool(case.get("blind"))
    out.info["blind"] = blind
    try:
        v0 = None if blind else ad.view(obj)
        to_pickle(obj, path)
        if blind:
            v0 = ad.view(obj)
    except Exception as e:  # noqa: BLE001
        out.fail("serialize-raises", f"to_pickle raises {type(e).__name__}: {str(e)[:200]}")
        return out
    loads: list[Any] = []
    recs: list[Any] = []
    afters: list[Any] = []
    for k in range(n_loads):
        try:
            cur = load(path)
        except Exception as e:  # noqa: BLE001
            out.fail("reload:load-raises", f"{helper} #{k + 1} of the unchanged file raises {type(e).__name__}: {str(e)[:200]}")
            return out
        same = False
        for j, prev in enumerate([obj, *loads]):
            who = "the object that was saved" if j == 0 else f"the object returned by load #{j}"
            if cur is prev:
                same = True
                out.fail("reload:same-object", f"{helper} #{k + 1} of the unchanged file returns {who} (the very same Python object), not a new restoration")
            else:
                sh = OBS.shared_state(prev, cur)
                if sh:
                    out.fail("reload:shared-state", f"load #{k + 1} shares mutable state with {who}: " + "; ".join(sh[:4]))
        try:
            vk = ad.view(cur)
        except Exception as e:  # noqa: BLE001
            out.fail("copy-broken", f"viewing load #{k + 1} raises {type(e).__name__}: {str(e)[:200]}")
            return out
        d = OBS.diff_views(v0, vk)
        if d:
            out.fail("reload:view-differs", f"load #{k + 1} of the unchanged file ({helper}) is not what was saved" + (f" ({k} earlier load(s) were used in between)" if k else "") + ": " + "; ".join(d[:3]))
        if same:
            out.info["same_object"] = True
        try:
            recs.append(ad.use(cur, st))
            afters.append(ad.after(cur))
        except Exception as e:  # noqa: BLE001
            out.fail("copy-broken", f"using load #{k + 1} raises {type(e).__name__}: {str(e)[:200]}")
            return out
        if not same:
            for j, prev in enumerate(loads):
                dd = OBS.diff_views(afters[j], ad.after(prev))
                if dd:
                    out.fail("reload:use-affects-earlier-load", f"using load #{k + 1} changed load #{j + 1}: " + "; ".join(dd[:3]))
        loads.append(cur)
    # reference of the behaviour: the original, never serialized, with the same script
    try:
        rec0 = ad.use(obj, st)
        after0 = ad.after(obj)
    except Exception as e:  # noqa: BLE001
        out.status, out.detail = "skipped", f"the original cannot run the script: {type(e).__name__}: {e}"
        return out
    for k in range(n_loads):
        if recs[k] != rec0:
            ix = next((i for i, (a, b) in enumerate(zip(rec0, recs[k])) if a != b), -1)
            dd = OBS.diff_views(rec0[ix], recs[k][ix]) if ix >= 0 else ["length"]
            out.fail("reload:behaviour-differs", f"load #{k + 1} answers step {ix} of the script differently from the original: " + "; ".join(dd[:2])[:400])
        dd = OBS.diff_views(after0, afters[k])
        if dd:
            out.fail("reload:view-differs-after-use", f"load #{k + 1} after the same script as the original: " + "; ".join(dd[:3]))
    if case.get("rewrite"):
        # the same path written again (the object as it is now): a load gives the object written last
        try:
            v_now = ad.view(obj)
            to_pickle(obj, path)
            cur = load(path)
            if any(cur is prev for prev in [obj, *loads]):
                out.fail("reload:same-object", f"{helper} of the re-written file returns an object returned before")
            dd = OBS.diff_views(v_now, ad.view(cur))
            if dd:
                out.fail("reload:rewritten-file-stale", "the file was written again; its load is not the object written last: " + "; ".join(dd[:3]))
        except Exception as e:  # noqa: BLE001
            out.fail("reload:load-raises", f"re-writing and loading raises {type(e).__name__}: {str(e)[:200]}")
    return out


# --------------------------------------------------------------------------- generation


def core_cases() -> list[dict[str, Any]]:
    cases: list[dict[str, Any]] = []
    for r, m, h in (("Sellar1", "fresh", "from_pickle"), ("AnalyticDiscipline", "executed", "import_discipline"),
                    ("MDOChain", "linearized", "gemseo.from_pickle"), ("AffineDisc", "fresh", "import_discipline"),
                    ("MDAJacobi[affine]", "executed", "from_pickle"), ("SobieskiMission[dtype=complex128]", "fresh", "from_pickle")):
        cases.append({"kind": "reload", "what": "discipline", "recipe": r, "moment": m, "cache": "SimpleCache", "seed": 11, "loads": 3 if m == "fresh" else 2,
                      "helper": h, "rewrite": m != "executed", "n_pre": 1, "n_post": 1})
    cases.append({"kind": "reload", "what": "design_space", "moment": "used", "seed": 1, "loads": 2, "rewrite": True})
    cases.append({"kind": "reload", "what": "function", "shape": "add", "moment": "used", "seed": 1, "loads": 2})
    cases.append({"kind": "reload", "what": "problem", "problem": "custom", "moment": "evaluated", "algo": "SLSQP", "seed": 1, "loads": 2, "rewrite": True})
    cases.append({"kind": "reload", "what": "scenario", "scenario": "MDO", "formulation": "MDF", "moment": "fresh", "algo": "SLSQP", "loads": 2})
    for g in ("JSONGrammar", "SimpleGrammar", "PydanticGrammar"):
        cases.append({"kind": "reload", "what": "grammar", "grammar": g, "seed": 2, "loads": 2})
    cases.append({"kind": "reload", "what": "cache", "cache": "SimpleCache", "seed": 1, "n_entries": 2, "loads": 3})
    return cases


def gen_case(rng: common.Rng) -> dict[str, Any]:
    from harness import c20_catalog as CAT

    what = rng.pick(["discipline"] * 12 + ["grammar"] * 3 + ["problem"] * 2 + ["design_space", "function", "function", "cache", "scenario"])
    c: dict[str, Any] = {"kind": "reload", "what": what, "seed": rng.randint(0, 10**6), "loads": rng.pick([2, 2, 3]),
                         "helper": rng.pick(["from_pickle", "from_pickle", "gemseo.from_pickle", "import_discipline"]), "rewrite": rng.chance(0.3)}
    if rng.chance(0.4):
        c["blind"] = True
    if what == "discipline":
        recipes, _ = CAT.discipline_recipes()
        c.update(recipe=rng.pick(sorted(recipes)), grammar=rng.pick(["JSONGrammar", "JSONGrammar", "SimpleGrammar", "PydanticGrammar"]),
                 cache=rng.pick(["none", "SimpleCache", "SimpleCache"]), moment=rng.pick(CAT.MOMENTS), n_pre=rng.randint(1, 2), n_post=rng.randint(1, 2))
        if rng.chance(0.4):
            import harness.c20 as C20

            c["edits"] = C20.gen_edits(rng, c["cache"])
    elif what == "grammar":
        c["grammar"] = rng.pick(["JSONGrammar", "SimpleGrammar", "SimplerGrammar", "PydanticGrammar"])
    elif what == "problem":
        c.update(problem=rng.pick(["Power2", "Rosenbrock", "custom", "custom-max"]), moment=rng.pick(["fresh", "evaluated", "solved"]), algo=rng.pick(["SLSQP", "L-BFGS-B"]))
    elif what == "design_space":
        c["moment"] = rng.pick(["fresh", "used"])
    elif what == "function":
        c.update(shape=rng.pick(["f", "g", "lin", "quad", "neg", "add", "sub", "scal", "mul", "div", "offset", "lin-restrict", "concat", "convex"]), moment=rng.pick(["fresh", "used"]))
    elif what == "cache":
        c["cache"] = "SimpleCache"
    elif what == "scenario":
        sc = rng.pick(["MDO", "DOE"])
        c.update(scenario=sc, formulation="MDF", moment=rng.pick(["fresh", "executed"]), algo="SLSQP" if sc == "MDO" else "PYDOE_LHS", loads=2)
    return c


# --------------------------------------------------------------------------- process sessions vs the model (`ps`)
#
# The bare protocol on the Probe class of c20_disc, through the REAL helpers and real files: an original with
# generated attributes (plain numbers, `Value`s, paths, excluded locks) and generated hooks; operations
#   S~i~p  to_pickle(objs[i], p)      L~p  objs.append(from_pickle(p))
#   A~i~a~v  objs[i].a = v            B~i~a  objs[i].a.value += 1  (a Value) / objs[i].a += 1 (a number)
# After every operation every live object is shown (attributes sorted, Values with their value and the number
# of their shared-memory cell in order of first appearance): compared line by line with `Proc.step` of the
# model; independent oracle below.

_PS_NAMES = ["a", "b", "c", "_e", "__f", "lock"]
_PS_PATHS = ["f", "g", "h"]


def gen_ps_case(rng: common.Rng) -> dict[str, Any]:
    import harness.c20 as C20

    base = C20.gen_probe_case(rng, True)
    # sessions stay picklable: every lock (attribute or hook-made) is excluded
    ex = set(base["excluded"])
    for a in base["obj"]:
        if a[1] == "L":
            ex.add(a[0])
    for h in base["before"] + base["after"]:
        if h[1] == "L":
            ex.add(h[0])
    names = sorted({a[0] for a in base["obj"]} | {h[0] for h in base["before"] + base["after"]}) or ["a"]
    ops: list[list[Any]] = [["S", 0, "f"]] if rng.chance(0.9) else []
    n_objs = 1
    if ops and rng.chance(0.5):
        # the region of the seeded change r3m1: a file loaded, the restoration mutated, the unchanged file loaded again
        ops.append(["L", "f"])
        n_objs += 1
        for _ in range(rng.randint(1, 3)):
            ops.append(["A", 1, rng.pick(names), rng.randint(-9, 99)] if rng.chance(0.5) else ["B", 1, rng.pick(names)])
        ops.append(["L", "f"])
        n_objs += 1
    for _ in range(rng.randint(3, 9)):
        k = rng.pick(["L", "L", "L", "A", "A", "B", "B", "B", "S"])
        if k == "L":
            p = rng.pick(["f", "f", "f", "g", "h"])
            ops.append(["L", p])
            n_objs += 1  # (an upper bound: a missing file adds nothing)
        elif k == "S":
            ops.append(["S", rng.randint(0, n_objs), rng.pick(["f", "g", "g"])])
        elif k == "A":
            ops.append(["A", rng.randint(0, n_objs), rng.pick(names), rng.randint(-9, 99)])
        else:
            ops.append(["B", rng.randint(0, n_objs), rng.pick(names)])
    return {"kind": "ps", "excluded": sorted(ex), "before": base["before"], "after": base["after"], "obj": base["obj"], "heap": base["heap"], "ops": ops}


def ps_line(case: dict[str, Any]) -> str:
    import harness.c20 as C20

    ex = ",".join(case["excluded"]) if case["excluded"] else "[]"
    heap = ",".join(str(v) for v in case["heap"]) if case["heap"] else "[]"
    ops = ";".join("~".join(str(x) for x in op) for op in case["ops"]) if case["ops"] else "_"
    return f"ps ex={ex} bf={C20._fmt_items(case['before'])} af={C20._fmt_items(case['after'])} obj={C20._fmt_items(case['obj'])} heap={heap} ops={ops}"


def _ps_show(objs) -> str:
    import harness.c20 as C20

    seen: dict[int, int] = {}
    parts = []
    for o in objs:
        shown = []
        for n in sorted(o.__dict__):
            v = o.__dict__[n]
            k = C20._kind_of(v)
            if k == "S":
                num = seen.setdefault(id(v), len(seen))
                shown.append(f"{n}:S:{v.value}#{num}")
            elif k == "D":
                shown.append(f"{n}:D:{v.as_posix()}")
            elif k == "L":
                shown.append(f"{n}:L")
            else:
                shown.append(f"{n}:P:{v}")
        parts.append(",".join(shown) if shown else "_")
    return "/".join(parts)


def _ps_snapshot(o, excluded) -> dict[str, tuple]:
    import harness.c20 as C20

    snap = {}
    for n, v in o.__dict__.items():
        if n in excluded:
            continue
        k = C20._kind_of(v)
        snap[n] = ("S", v.value) if k == "S" else ("D", v.as_posix()) if k == "D" else ("L",) if k == "L" else ("P", v)
    return snap


def ps_run(case: dict[str, Any], tmp: Path) -> tuple[str, list[tuple[str, str]], dict[str, int]]:
    """(protocol answer of the real helpers, oracle failures, histogram)."""
    import shutil
    import tempfile
    import threading
    from multiprocessing import Value
    from multiprocessing.sharedctypes import Synchronized

    from gemseo.utils.pickle import from_pickle
    from gemseo.utils.pickle import to_pickle

    from harness.c20_disc import Probe

    hist: dict[str, int] = {}
    bad: list[tuple[str, str]] = []
    d = Path(tempfile.mkdtemp(prefix="ps-", dir=str(tmp)))
    try:
        cells = [Value("i", int(v)) for v in case["heap"]]
        Probe.SPEC = {"excluded": case["excluded"], "before": [h if len(h) == 3 else [*h, 0] for h in case["before"]], "after": [h if len(h) == 3 else [*h, 0] for h in case["after"]]}
        Probe._ATTR_NOT_TO_SERIALIZE = set(case["excluded"])
        p0 = Probe()
        for a in case["obj"]:
            n, k = a[0], a[1]
            p0.__dict__[n] = int(a[2]) if k == "P" else cells[int(a[2])] if k == "S" else Path(a[2]) if k == "D" else threading.Lock()
        objs = [p0]
        snaps: dict[str, dict[str, tuple]] = {}
        mutated_since_load: dict[str, bool] = {}  # path -> an object loaded from it was mutated since
        origin: dict[int, str] = {}  # index of the object -> path it was loaded from
        hooked_before_sync = {h[0] for h in case["before"] if h[1] == "S"}
        hooked = {h[0] for h in case["before"]} | {h[0] for h in case["after"]}
        later = {h[0] for h in case["after"]}
        out = []
        for op in case["ops"]:
            st = "ok"
            if op[0] == "S":
                i, p = int(op[1]), str(op[2])
                if i >= len(objs):
                    st = "E:index"
                else:
                    try:
                        to_pickle(objs[i], d / f"{p}.pkl")
                        snaps[p] = _ps_snapshot(objs[i], set(case["excluded"]))
                        mutated_since_load[p] = False
                    except Exception:  # noqa: BLE001
                        st = "E:pickle"
            elif op[0] == "L":
                p = str(op[1])
                f = d / f"{p}.pkl"
                if not f.exists():
                    st = "E:nofile"
                else:
                    new = from_pickle(f)
                    hist["ps:load"] = hist.get("ps:load", 0) + 1
                    if any(origin.get(j) == p for j in range(len(objs))):
                        hist["ps:load-of-a-file-already-loaded"] = hist.get("ps:load-of-a-file-already-loaded", 0) + 1
                        if mutated_since_load.get(p):
                            hist["ps:reload-after-an-earlier-load-was-mutated"] = hist.get("ps:reload-after-an-earlier-load-was-mutated", 0) + 1
                    # ---- oracle (property text): a new object, sharing no Value, showing what was saved
                    if any(new is o for o in objs):
                        bad.append(("from_pickle:same-object", f"{'~'.join(map(str, op))}: from_pickle returns an object that already exists in the process"))
                    else:
                        mine = {id(v) for v in new.__dict__.values() if isinstance(v, Synchronized)}
                        for j, o in enumerate(objs):
                            if mine & {id(v) for v in o.__dict__.values() if isinstance(v, Synchronized)}:
                                bad.append(("from_pickle:shared-state", f"{'~'.join(map(str, op))}: the loaded object shares a Value with object #{j}"))
                    snap = snaps.get(p, {})
                    got = _ps_snapshot(new, set())
                    for n, want in snap.items():
                        if n in hooked and not (want[0] == "S" and n in hooked_before_sync and n not in later):
                            continue  # (re-assigned by a hook: not carried by the protocol)
                        if want[0] == "S" and n not in hooked_before_sync:
                            want = ("P", want[1])  # (a Value no hook re-creates comes back as its number)
                        if want[0] == "L":
                            continue
                        if got.get(n) != want:
                            bad.append(("from_pickle:not-what-was-saved", f"{'~'.join(map(str, op))}: attribute {n} was {want} when the file was written, the loaded object has {got.get(n)}"))
                    origin[len(objs)] = p
                    objs.append(new)
            elif op[0] in ("A", "B"):
                i, a = int(op[1]), str(op[2])
                if i >= len(objs):
                    st = "E:index"
                else:
                    o = objs[i]
                    if op[0] == "A":
                        o.__dict__[a] = int(op[3])
                    else:
                        v = o.__dict__.get(a)
                        if isinstance(v, Synchronized):
                            v.value += 1
                        elif type(v) is int:
                            o.__dict__[a] = v + 1
                    if i in origin:
                        mutated_since_load[origin[i]] = True
            out.append(st + "@" + _ps_show(objs))
        # dedupe oracle keys
        seen_k = set()
        bad = [(k, w) for k, w in bad if not (k in seen_k or seen_k.add(k))]
        return (" ; ".join(out) if out else "_"), bad, hist
    finally:
        shutil.rmtree(d, ignore_errors=True)


def shrink_ps(case: dict[str, Any], key: str, tmp: Path) -> dict[str, Any]:
    import json

    cur = case
    progress = True
    while progress:
        progress = False
        for i in range(len(cur["ops"])):
            c = json.loads(json.dumps(cur))
            del c["ops"][i]
            try:
                _, bad, _ = ps_run(c, tmp)
            except Exception:  # noqa: BLE001
                continue
            if any(k == key for k, _ in bad):
                cur, progress = c, True
                break
    return cur


def check_sessions(res, cases: list[dict[str, Any]], tmp: Path) -> None:
    if not cases:
        return
    lines = [ps_line(c) for c in cases]
    model = common.run_lean_driver("C20", lines)
    for case, line, m in zip(cases, lines, model):
        res.evaluations += 1
        try:
            impl, bad, hist = ps_run(case, tmp)
        except Exception as e:  # noqa: BLE001
            res.count("ps:harness-crash")
            res.notes.append(f"ps session crashed ({type(e).__name__}: {e}) on {line}")
            continue
        res.count("ps:session")
        for k, n in hist.items():
            res.count(k, n)
        for op in case["ops"]:
            res.count("ps:op=" + op[0])
        res.traces_validated += 1
        if hist.get("ps:load"):
            res.nontrivial(("ps", line))
        for key, what in bad:
            small = shrink_ps(case, key, tmp)
            res.violate("oracle", key, what + f" [{ps_line(small)}]", {"case": small, "line": ps_line(small)})
        if impl != m and not bad:
            res.disagreements += 1
            # failing-input search: sessions with one operation dropped / the first load repeated at the end
            found = False
            import json

            neigh = []
            for i in range(len(case["ops"])):
                c = json.loads(json.dumps(case))
                del c["ops"][i]
                neigh.append(c)
            for p in _PS_PATHS:
                c = json.loads(json.dumps(case))
                c["ops"].append(["L", p])
                neigh.append(c)
            for c in neigh:
                try:
                    _, b2, _ = ps_run(c, tmp)
                except Exception:  # noqa: BLE001
                    continue
                if b2:
                    res.violate("oracle", b2[0][0], b2[0][1] + f" [{ps_line(c)}]", {"case": c, "line": ps_line(c)})
                    found = True
                    break
            if not found:
                res.violate("correspondence", "save-load-helpers", f"to_pickle/from_pickle on a Serializable and the model (Proc.step) disagree on: {line}",
                            {"line": line, "expected(model)": m, "observed(implementation)": impl, "case": case})
        elif impl != m:
            res.disagreements += 1
