"""C12 child-process entry point: `/venv/bin/python harness/c12_child.py <spec.json>`
(one run in this process) or `... c12_child.py --server` (a pristine interpreter that has only
imported GEMSEO and that forks one fresh process per spec path read on stdin: every run — killed or
not, first start or restart — is its own OS process and never shares memory with another run; the
import cost is paid once).

Builds a real MDOScenario/DOEScenario from the spec with harness disciplines (harness/c12_disc.py),
sets the history backup, optionally attaches read-only tracing listeners, executes it — possibly
dying with `os._exit(1)` inside the k-th discipline execution — and, when it survives, writes a JSON
result (final database in insertion order, optimum, evaluation counter, execution statistics).
Only public GEMSEO API is used.
"""

from __future__ import annotations

import json
import os
import sys
from pathlib import Path

sys.path.insert(0, str(Path(__file__).resolve().parent.parent))
os.environ.setdefault("OMP_NUM_THREADS", "1")
os.environ.setdefault("OPENBLAS_NUM_THREADS", "1")
os.environ.setdefault("MPLBACKEND", "Agg")


def dump_db(database) -> list:
    from harness.c12_disc import flt

    return [[flt(x.unwrap()), {n: flt(v) for n, v in outs.items()}] for x, outs in database.items()]


def build(spec):
    import numpy as np
    from gemseo.algos.design_space import DesignSpace
    from gemseo.scenarios.doe_scenario import DOEScenario
    from gemseo.scenarios.mdo_scenario import MDOScenario

    from harness.c12_disc import PolyDisc

    sc = spec["scenario"]
    ds = DesignSpace()
    for v in sc["variables"]:
        ds.add_variable(
            v["name"], size=len(v["lb"]), lower_bound=np.array(v["lb"], dtype=float),
            upper_bound=np.array(v["ub"], dtype=float), value=np.array(v["x0"], dtype=float),
        )
    discs = [PolyDisc(d) for d in sc["disciplines"]]
    cls = DOEScenario if sc["kind"] == "doe" else MDOScenario
    scenario = cls(discs, sc["objective"], ds, formulation_name=sc["formulation"],
                   maximize_objective=bool(sc.get("maximize")))
    for name, ctype in sc.get("constraints", []):
        scenario.add_constraint(name, constraint_type=ctype)
    for name in sc.get("observables", []):
        scenario.add_observable(name)
    if sc.get("nocache"):
        # every function evaluation executes the disciplines again: evaluations of different
        # functions at the same point are separated by discipline executions (crash points)
        none = discs[0].CacheType.NONE
        for d in [*discs, *scenario.formulation.get_top_level_disciplines()]:
            d.set_cache(none)
    return scenario, discs


def trace_requests(problem, normalized: bool):
    """Log every request made to a preprocessed problem function (public `evaluate` / `jac`)."""
    from gemseo.algos.database import Database
    from gemseo.algos.problem_function import ProblemFunction
    from gemseo.core.mdo_functions.mdo_function import MDOFunction

    from harness import c12_disc
    from harness.c12_disc import flt

    space = problem.design_space

    def phys(function, x):
        # `normalized` (the algorithm works on the unit cube) is only a hint: each preprocessed
        # function says whether it expects normalised inputs (the new-iteration observables do not)
        return flt(space.unnormalize_vect(x) if function.expects_normalized_inputs else x)

    orig_evaluate = ProblemFunction.evaluate

    def evaluate(self, x_vect):
        c12_disc.LOG.write({"ev": "req", "name": self.name, "x": phys(self, x_vect)})
        return orig_evaluate(self, x_vect)

    ProblemFunction.evaluate = evaluate
    base_jac = MDOFunction.jac

    def jac_getter(self):
        pointer = base_jac.fget(self)

        def traced(x_vect):
            c12_disc.LOG.write({"ev": "req", "name": Database.get_gradient_name(self.name), "x": phys(self, x_vect)})
            return pointer(x_vect)

        return traced

    ProblemFunction.jac = property(jac_getter, base_jac.fset)


def main(spec_path: str) -> int:
    import logging
    import warnings

    logging.disable(logging.CRITICAL)
    warnings.filterwarnings("ignore")
    spec = json.loads(Path(spec_path).read_text())
    import numpy as np

    from harness import c12_disc
    from harness.c12_disc import flt

    scenario, discs = build(spec)
    problem = scenario.formulation.optimization_problem
    database = problem.database
    c12_disc.LOG.open(spec["log"], spec.get("crash_k"), spec.get("crash_in", "run"))
    if spec.get("trace"):
        c12_disc.LOG.database = database
    bk = spec.get("backup")
    pre = None
    if bk:
        scenario.set_optimization_history_backup(
            bk["path"], at_each_iteration=bk["each_iter"], at_each_function_call=bk["each_call"],
            erase=bk.get("erase", False), load=bk.get("load", False),
        )
        pre = {"loaded": dump_db(database), "counter": problem.evaluation_counter.current}
        c12_disc.LOG.write({"ev": "loaded", "n": len(database), "counter": problem.evaluation_counter.current})
    if spec.get("trace"):
        # read-only listeners, attached after the backup listener (so they observe the state the
        # backup callback has just exported)
        def on_store(x):
            outs = database[x]
            c12_disc.LOG.write({"ev": "store", "x": flt(x), "names": list(outs), "n": len(database)})

        def on_iter(x):
            c12_disc.LOG.write({"ev": "newiter", "x": flt(x), "n": len(database), "db": c12_disc.LOG.db_names()})

        # attached to the database directly (not through problem.add_listener, which is code under test)
        database.add_store_listener(on_store)
        database.add_new_iter_listener(on_iter)
        trace_requests(problem, bool(spec["scenario"].get("normalized")))
    algo = dict(spec["scenario"]["algo"])
    if "samples" in algo:
        algo["samples"] = np.array(algo["samples"], dtype=float)
    algo.update(spec.get("algo_extra", {}))
    error = None
    try:
        scenario.execute(**algo)
    except BaseException as e:  # noqa: BLE001
        error = f"{type(e).__name__}: {str(e)[:300]}"
    res = scenario.optimization_result
    out = {
        "error": error,
        "pre": pre,
        "db": dump_db(database),
        "counter": problem.evaluation_counter.current,
        "n_exec": {d.name: d.execution_statistics.n_executions for d in discs},
        "result": None if res is None else {
            "x_opt": None if res.x_opt is None else flt(res.x_opt),
            "f_opt": None if res.f_opt is None else float(res.f_opt),
            "is_feasible": bool(res.is_feasible),
            "n_obj_call": res.n_obj_call,
        },
    }
    c12_disc.LOG.write({"ev": "end"})
    Path(spec["out"]).write_text(json.dumps(out))
    return 0


def preload() -> None:
    """Import what a run needs and let the factories scan their packages (class registries only:
    no scenario, discipline or problem object is created before the fork)."""
    import h5py  # noqa: F401
    import numpy  # noqa: F401
    from gemseo.algos.doe.factory import DOELibraryFactory
    from gemseo.algos.opt.factory import OptimizationLibraryFactory
    from gemseo.formulations.factory import MDOFormulationFactory
    from gemseo.scenarios.doe_scenario import DOEScenario  # noqa: F401
    from gemseo.scenarios.mdo_scenario import MDOScenario  # noqa: F401

    from harness import c12_disc  # noqa: F401

    DOELibraryFactory()
    OptimizationLibraryFactory()
    MDOFormulationFactory()


def serve(timeout: float = 170.0) -> int:
    import time
    import traceback

    preload()
    sys.stdout.write("ready\n")
    sys.stdout.flush()
    for line in sys.stdin:
        spec_path = line.strip()
        if not spec_path:
            continue
        pid = os.fork()
        if pid == 0:
            rc = 3
            try:
                fd = os.open(spec_path + ".err", os.O_WRONLY | os.O_CREAT | os.O_TRUNC)
                os.dup2(fd, 2)
                rc = main(spec_path)
            except BaseException:  # noqa: BLE001
                traceback.print_exc()
            finally:
                os._exit(rc)
        t0 = time.time()
        while True:
            done, status = os.waitpid(pid, os.WNOHANG)
            if done:
                rc = os.waitstatus_to_exitcode(status)
                break
            if time.time() - t0 > timeout:
                os.kill(pid, 9)
                os.waitpid(pid, 0)
                rc = -9
                break
            time.sleep(0.002)
        sys.stdout.write(f"{rc}\n")
        sys.stdout.flush()
    return 0


if __name__ == "__main__":
    if sys.argv[1] == "--server":
        sys.exit(serve())
    sys.exit(main(sys.argv[1]))
