"""C14 — generations in a process in which nothing has been sampled before.

"The same algorithm, settings and seed always generate the same samples": whatever was generated before in
the process, by the same algorithm or by another one.  The reference for a request is therefore what a process
returns in which this request is the *first* generation ever made.  Starting an interpreter per request costs
about 4 s (the import of GEMSEO and of the DOE libraries); this module is a small **fork server** instead:

* ``python harness/c14_fresh.py`` (run with ``/venv/bin/python``; ``PYTHONPATH`` is inherited, so the GEMSEO
  under test is the one the check runs against) imports GEMSEO and every DOE library module, creates no
  library object and generates nothing, then answers one JSON job per line;
* for each job it ``fork``s: the child is a copy of the pristine process, runs the *history* of the job (a list
  of generations, one after the other, in that one process), writes the observations as one JSON line and exits.
  The server itself never samples anything, so every child starts from the state of a new interpreter that
  has just imported GEMSEO.

A history of length 1 is the reference of its request; a longer history is "what a user's process does".
Floats travel as JSON numbers (``repr`` round-trips exactly).

Client side: :class:`FreshServer` (started early by the harness so that the import overlaps with other
streams); a time-out or a crash of the server is an *infrastructure* problem (``FreshUnavailable``): the stream
using it skips the case, it can never produce a verdict.
"""

from __future__ import annotations

import json
import os
import select
import subprocess
import sys
import time
from pathlib import Path
from typing import Any

VERIF = Path(__file__).resolve().parent.parent
PYTHON = "/venv/bin/python"
MAX_CHILDREN = 4  # pristine children running at the same time


class FreshUnavailable(Exception):
    """The fork server did not answer (time-out, crash): no verdict can be drawn."""


# --------------------------------------------------------------------------- server side (child processes)


def run_history(job: dict[str, Any]) -> list[dict[str, Any]]:
    """Run the generations of `job["steps"]` one after the other in this process.

    step = {"space": ..., "req": ..., "mode": "compute"|"unit"|"exec", "lib": label}; the same label means the
    same library object (created at its first use).  A step never stops the history: an exception is recorded."""
    import numpy as np

    from harness import c14 as B

    libs: dict[str, Any] = {}
    out = []
    for step in job["steps"]:
        space, req, mode = step["space"], step["req"], step["mode"]
        o: dict[str, Any] = {"exc": None}
        try:
            lib = libs.get(step["lib"])
            if lib is None:
                lib = libs[step["lib"]] = B.factory().create(req["algo"])
            kw = B.settings_of(space, req)
            ds = B.build_space(space)
            if mode == "exec":
                from gemseo.algos.optimization_problem import OptimizationProblem
                from gemseo.core.mdo_functions.mdo_function import MDOFunction

                pb = OptimizationProblem(ds)
                pb.objective = MDOFunction(B._objective, "f")
                lib.execute(pb, **kw)
                o["x"] = np.array(lib.samples).tolist()
                o["us"] = np.array(lib.unit_samples).tolist()
                o["db"] = [np.array(k).tolist() for k in pb.database.get_x_vect_history()]
            else:
                o["x"] = np.array(lib.compute_doe(ds, unit_sampling=(mode == "unit"), **kw)).tolist()
            o["lseed"] = int(lib.seed)
            o["int_after"] = bool(ds.enable_integer_variables_normalization)
        except Exception as e:  # noqa: BLE001
            o["exc"] = f"{type(e).__name__}: {e}"[:300]
        out.append(o)
    B.cleanup_tmp()  # `doe_file` inputs written by this child (it leaves through os._exit: no atexit)
    return out


def serve() -> None:
    sys.path.insert(0, str(VERIF))
    os.environ.setdefault("OMP_NUM_THREADS", "1")
    os.environ.setdefault("OPENBLAS_NUM_THREADS", "1")
    os.environ.setdefault("MPLBACKEND", "Agg")
    import gemseo  # noqa: F401
    from gemseo.algos.design_space import DesignSpace  # noqa: F401
    from gemseo.algos.doe.factory import DOELibraryFactory
    from gemseo.algos.optimization_problem import OptimizationProblem  # noqa: F401
    from gemseo.core.mdo_functions.mdo_function import MDOFunction  # noqa: F401

    from harness import c14 as B  # noqa: F401
    from harness import common

    common.quiet_gemseo()
    DOELibraryFactory().algorithms  # imports the modules of all the libraries; no library object, no sample
    stdout = sys.stdout
    stdout.write(json.dumps({"ready": True, "gemseo": os.path.dirname(gemseo.__file__)}) + "\n")
    stdout.flush()
    for line in sys.stdin:
        line = line.strip()
        if not line:
            continue
        batch = json.loads(line)["jobs"]
        results: list[str | None] = [None] * len(batch)
        running: dict[int, tuple[int, int]] = {}  # read end of the pipe -> (index, pid)
        buffers: dict[int, list[bytes]] = {}
        nxt = 0
        while nxt < len(batch) or running:
            while nxt < len(batch) and len(running) < MAX_CHILDREN:
                r, w = os.pipe()
                pid = os.fork()
                if pid == 0:
                    os.close(r)
                    for fd in running:
                        os.close(fd)
                    try:
                        res: Any = {"steps": run_history(batch[nxt])}
                    except BaseException as e:  # noqa: BLE001
                        res = {"crash": f"{type(e).__name__}: {e}"[:300]}
                    view = memoryview(json.dumps(res).encode())
                    while view:
                        view = view[os.write(w, view):]
                    os._exit(0)
                os.close(w)
                running[r] = (nxt, pid)
                buffers[r] = []
                nxt += 1
            ready, _, _ = select.select(list(running), [], [])
            for fd in ready:
                b = os.read(fd, 1 << 16)
                if b:
                    buffers[fd].append(b)
                    continue
                idx, pid = running.pop(fd)
                os.close(fd)
                os.waitpid(pid, 0)
                results[idx] = b"".join(buffers.pop(fd)).decode().strip() or json.dumps({"crash": "the child wrote nothing"})
        stdout.write("[" + ",".join(r or "null" for r in results) + "]\n")
        stdout.flush()


# --------------------------------------------------------------------------- client side


class FreshServer:
    """One fork server per check run; answers are cached per job (the jobs are deterministic)."""

    def __init__(self) -> None:
        self.proc: subprocess.Popen | None = None
        self.cache: dict[str, Any] = {}
        self.ready = False
        self.info: dict[str, Any] = {}
        self.jobs = 0
        self.restarts = 0
        self.failed: str | None = None

    def start(self) -> None:
        if self.proc is not None or self.failed:
            return
        env = dict(os.environ)
        try:
            self.proc = subprocess.Popen([PYTHON, str(Path(__file__).resolve())], stdin=subprocess.PIPE,
                                         stdout=subprocess.PIPE, stderr=subprocess.DEVNULL, cwd=str(VERIF), env=env,
                                         text=True, bufsize=1)
        except OSError as e:
            self.failed = repr(e)

    def _readline(self, timeout: float) -> str:
        assert self.proc is not None and self.proc.stdout is not None
        end = time.time() + timeout
        while True:
            left = end - time.time()
            if left <= 0:
                self._fail("time-out")
            ready, _, _ = select.select([self.proc.stdout], [], [], min(left, 5.0))
            if ready:
                line = self.proc.stdout.readline()
                if not line:
                    self._fail("the server exited")
                return line
            if self.proc.poll() is not None:
                self._fail("the server exited")

    def _fail(self, why: str):
        self.failed = why
        self.stop()
        raise FreshUnavailable(why)

    def wait_ready(self, timeout: float = 300.0) -> None:
        if self.failed:
            raise FreshUnavailable(self.failed)
        if self.ready:
            return
        self.start()
        if self.failed:
            raise FreshUnavailable(self.failed)
        self.info = json.loads(self._readline(timeout))
        self.ready = True

    def run_many(self, histories: list[list[dict[str, Any]]], timeout: float = 300.0) -> list[list[dict[str, Any]]]:
        """Observations of every history of `histories`, each run in its own process that has sampled nothing
        before (up to MAX_CHILDREN at the same time)."""
        keys = [json.dumps(steps, sort_keys=True) for steps in histories]
        todo: dict[str, list[dict[str, Any]]] = {}
        for key, steps in zip(keys, histories):
            if key not in self.cache:
                todo.setdefault(key, steps)
        if todo:
            self.wait_ready()
            assert self.proc is not None and self.proc.stdin is not None
            try:
                self.proc.stdin.write(json.dumps({"jobs": [{"steps": steps} for steps in todo.values()]}) + "\n")
                self.proc.stdin.flush()
            except OSError:
                self._fail("the server pipe is closed")
            answers = json.loads(self._readline(timeout))
            self.jobs += len(todo)
            for key, ans in zip(todo, answers):
                if ans is None or "crash" in ans:
                    raise FreshUnavailable("child crashed: " + str(ans and ans["crash"]))
                self.cache[key] = ans["steps"]
        return [self.cache[key] for key in keys]

    def run(self, steps: list[dict[str, Any]], timeout: float = 120.0) -> list[dict[str, Any]]:
        """Observations of the history `steps` run in a process that has sampled nothing before."""
        return self.run_many([steps], timeout)[0]

    def stop(self) -> None:
        if self.proc is not None:
            try:
                self.proc.stdin.close()  # type: ignore[union-attr]
            except Exception:  # noqa: BLE001
                pass
            try:
                self.proc.wait(timeout=3)
            except Exception:  # noqa: BLE001
                self.proc.kill()
            self.proc = None
            self.ready = False


if __name__ == "__main__":
    serve()
