"""C15 — grammars stay well-formed under edits and validate exactly their definition.

Correspondence: random edit histories over a world of 4 grammar slots (SimpleGrammar / JSONGrammar) are
executed on the real classes in-process and on the Lean model (Driver/C15.lean); after every operation
the public state of ALL slots (keys with types, required names, defaults, namespace maps) and the answer
of the operation (error class, validate verdict, schema / to_json / to_simple_grammar views) are diffed.

Oracle (independent of the model, written from the property text), evaluated on a second execution of
the same history ("oracle run") after every operation and on every live grammar:
  (i)   required names and defaults only refer to existing elements;
  (ii)  JSONGrammar.validate == the reference `jsonschema` validator on `to_json()`;
  (iii) validate == (all required present and every present value has an allowed type) computed from the
        CURRENT public definition, and == a fresh grammar rebuilt from that definition (stale validators);
        the `properties` of the cached `schema` are those of the current definition;
  (iv)  SimpleGrammar and JSONGrammar driven by the same history agree (definition and verdicts on the
        data both can express);
  (v)   read-only queries never change a grammar (before/after snapshots, and the oracle run — which
        queries much more — must stay step-wise equal to the plain run);
  plus  frame condition (an operation changes only its target: copies/pickles are independent),
        pickling keeps the definition, documented exceptions are raised exactly when documented.
Also: every JSON grammar file shipped under src/gemseo/**/*.json is loaded and checked with (i)-(iii).
"""

from __future__ import annotations

import collections.abc
import copy as _copy
import json
import pickle
import sys
import time
import warnings
from pathlib import Path
from typing import Any

from harness import common
from harness.common import Result

PID = "C15"
NSLOTS = 4

TRUSTED_EXTRA = (
    "C15: genson (schema merging) and fastjsonschema (compiled validator) are third-party: only their observable "
    "results are compared (with the model on the generated type fragment, with the reference `jsonschema` validator on every schema)",
    "C15: the reference validator `jsonschema` (harness-only dependency in /verif/.pydeps) is trusted as the meaning of a JSON schema",
    "C15: type fragment of the model: any/null/boolean/integer/number/string/object/array with one level of `items`, unions of those; "
    "schemas outside it (enum, minItems, nested properties, ...) are checked by the oracle only",
    "C15: data values never contain integral floats (1.0 is an integer for draft>=6 validators but not for draft-04; the draft depends on the `$schema` URI)",
)

# --------------------------------------------------------------------------- tokens <-> Python objects

PYTYPES: dict[str, Any] = {}


def _init_types() -> None:
    if PYTYPES:
        return
    from numpy import ndarray

    PYTYPES.update(
        {
            "any": None,
            "nd": ndarray,
            "list": list,
            "tuple": tuple,
            "str": str,
            "int": int,
            "float": float,
            "complex": complex,
            "bool": bool,
            "dict": dict,
            "none": type(None),
        }
    )


def pytype_token(t: Any) -> str:
    _init_types()
    if t is None:
        return "any"
    if t is collections.abc.Mapping:
        return "dict"
    for k, v in PYTYPES.items():
        if v is t:
            return k
    return "?" + getattr(t, "__name__", repr(t))


LEAF_VALUES = {"z": None, "b": True, "i": 3, "f": 1.5, "s": "a", "d": {}, "L": [1.5]}


def value_of(tok: str) -> Any:
    from numpy import array

    if tok == "D":
        return {"u": array([1.5, 2.5]), "v": {"w": complex(1.5, 0.5)}, "t": (1, 2)}

    if tok == "c":
        return complex(1.5, 0.5)
    if ":" not in tok:
        return _copy.deepcopy(LEAF_VALUES[tok])
    kind, items = tok.split(":")
    vals = [_copy.deepcopy(LEAF_VALUES[ch]) for ch in items]
    if kind == "nd":
        if items and set(items) == {"i"}:
            return array(vals, dtype=int)
        return array([float(v) for v in vals], dtype=float)
    if kind == "l":
        return vals
    if kind == "t":
        return tuple(vals)
    raise ValueError(tok)


def parse_list(s: str) -> list[str]:
    return [] if s == "-" else s.split(",")


def parse_kvs(s: str) -> list[tuple[str, str]]:
    if s == "-":
        return []
    out = []
    for part in s.split(","):
        k, v = part.split("=")
        out.append((k, v))
    return out


# JSON type expressions  <->  schemas ------------------------------------------------------------

_SIMPLE = {"Z": "null", "B": "boolean", "I": "integer", "N": "number", "S": "string", "O": "object"}


def schema_of_jtype(expr: str) -> dict[str, Any]:
    """A JSON schema for a type expression of the protocol (`*`, `I+S`, `A[N/S]`, ...)."""
    if expr == "*":
        return {}
    subs: list[dict[str, Any]] = []
    for part in expr.split("+"):
        if part in _SIMPLE:
            subs.append({"type": _SIMPLE[part]})
        elif part == "A":
            subs.append({"type": "array"})
        elif part.startswith("A[") and part.endswith("]"):
            inner = part[2:-1]
            if inner == "*":
                items: dict[str, Any] = {}
            else:
                its = [{"type": "array"} if p == "A" else {"type": _SIMPLE[p]} for p in inner.split("/")]
                items = its[0] if len(its) == 1 else {"type": [i["type"] for i in its]}
            subs.append({"type": "array", "items": items})
        else:
            raise ValueError(expr)
    if len(subs) == 1:
        return subs[0]
    if all(len(s) == 1 for s in subs):
        return {"type": [s["type"] for s in subs]}
    return {"anyOf": subs}


_IGNORED_KEYS = {"description", "id", "name", "$schema", "title"}


class _OutOfFragment(Exception):
    pass


def _subschemas(schema: dict[str, Any]) -> list[dict[str, Any]]:
    if "anyOf" in schema:
        if set(schema) - {"anyOf"} - _IGNORED_KEYS:
            raise _OutOfFragment
        return [s for sub in schema["anyOf"] for s in _subschemas(sub)]
    if isinstance(schema.get("type"), list):
        other = {k: v for k, v in schema.items() if k != "type"}
        return [dict(type=t, **other) for t in schema["type"]]
    return [schema]


def _flags(schema: dict[str, Any], nested: bool) -> dict[str, Any]:
    """Normal form of a (property or items) schema: set of allowed kinds."""
    fl: dict[str, Any] = {"Z": False, "B": False, "S": False, "O": False, "num": 0, "arr": None}
    for sub in _subschemas(schema):
        keys = set(sub) - _IGNORED_KEYS
        t = sub.get("type")
        if t is None:
            if keys:
                raise _OutOfFragment
            continue
        if t in ("null", "boolean", "string", "object"):
            if keys - {"type"}:
                raise _OutOfFragment
            fl[{"null": "Z", "boolean": "B", "string": "S", "object": "O"}[t]] = True
        elif t in ("integer", "number"):
            if keys - {"type"}:
                raise _OutOfFragment
            fl["num"] = max(fl["num"], 1 if t == "integer" else 2)
        elif t == "array":
            if keys - {"type", "items"}:
                raise _OutOfFragment
            if "items" not in sub:
                new = "untyped"
            else:
                if nested or not isinstance(sub["items"], dict):
                    raise _OutOfFragment
                inner = _flags(sub["items"], True)
                new = "untyped" if _is_any(inner) else inner
            cur = fl["arr"]
            if cur is None or cur == "untyped":
                fl["arr"] = new
            elif new != "untyped":
                raise _OutOfFragment  # two array strategies never coexist in a genson node
        else:
            raise _OutOfFragment
    return fl


def _is_any(fl: dict[str, Any]) -> bool:
    return not (fl["Z"] or fl["B"] or fl["S"] or fl["O"] or fl["num"] or fl["arr"] is not None)


def _show_flags(fl: dict[str, Any], sep: str) -> str:
    if _is_any(fl):
        return "*"
    parts = []
    if fl["Z"]:
        parts.append("Z")
    if fl["B"]:
        parts.append("B")
    if fl["num"]:
        parts.append("I" if fl["num"] == 1 else "N")
    if fl["S"]:
        parts.append("S")
    if fl["O"]:
        parts.append("O")
    a = fl["arr"]
    if a is not None:
        parts.append("A" if a == "untyped" else "A[" + _show_flags(a, "/") + "]")
    return sep.join(parts)


def jtype_of_schema(schema: dict[str, Any]) -> str:
    """Canonical type expression of a property schema (`?…` when outside the modelled fragment)."""
    try:
        return _show_flags(_flags(schema, False), "+")
    except _OutOfFragment:
        return "?" + json.dumps(schema, sort_keys=True)


# --------------------------------------------------------------------------- the real code, driven by protocol lines


def exc_tag(e: BaseException) -> str:
    return common.exc_class(e)


class ImplWorld:
    """The 4 grammar slots holding real GEMSEO grammars."""

    def __init__(self) -> None:
        self.slots: list[Any] = [None] * NSLOTS
        self.snaps: list[Any] = [None, None]  # snapshots `g.defaults.copy()` (Defaults objects)

    # -- observation (side-effect free reads of the public API)
    @staticmethod
    def elem_type(g: Any, name: str) -> str:
        from gemseo.core.grammars.simple_grammar import SimpleGrammar

        if isinstance(g, SimpleGrammar):
            return pytype_token(g[name])
        return jtype_of_schema(g[name].to_schema())

    @classmethod
    def show_grammar(cls, g: Any) -> str:
        from gemseo.core.grammars.simple_grammar import SimpleGrammar

        k = "S" if isinstance(g, SimpleGrammar) else "J"
        elems = ",".join(f"{n}={cls.elem_type(g, n)}" for n in g.keys())
        req = ",".join(sorted(g.required_names))
        dfl = ",".join(f"{n}={g.defaults[n]}" for n in sorted(g.defaults))

        def ns(m):
            return ",".join(f"{a}={b if isinstance(b, str) else '[' + '|'.join(b) + ']'}" for a, b in sorted(m.items()))

        return f"{k}{{{elems}}}r{{{req}}}d{{{dfl}}}t{{{ns(g.to_namespaced)}}}f{{{ns(g.from_namespaced)}}}"

    def show_slot(self, i: int) -> str:
        g = self.slots[i]
        return "_" if g is None else self.show_grammar(g)

    def show(self) -> str:
        return "|".join(self.show_slot(i) for i in range(NSLOTS))

    # -- operations
    def apply(self, line: str) -> str:
        """Execute one protocol line on the real code; return the status part of the answer."""
        from gemseo.core.grammars.json_grammar import JSONGrammar
        from gemseo.core.grammars.simple_grammar import SimpleGrammar

        _init_types()
        t = line.split()
        op = t[0]
        if op == "reset":
            self.slots = [None] * NSLOTS
            self.snaps = [None, None]
            return "ok"
        if op == "defsnap":
            g = self.slots[int(t[1])]
            if g is None:
                return "bad-slot"
            self.snaps[int(t[2])] = g.defaults.copy()
            return "ok"
        if op == "defrestore" and (self.slots[int(t[1])] is None or self.snaps[int(t[2])] is None):
            return "bad-slot"
        if op in ("defupdfrom", "defassignfrom") and (self.slots[int(t[1])] is None or self.slots[int(t[2])] is None):
            return "bad-slot"
        if op == "new":
            self.slots[int(t[1])] = (SimpleGrammar if t[2] == "S" else JSONGrammar)(f"g{t[1]}")
            return "ok"
        if op in ("upd", "copy", "pickle", "dcopy"):
            a, b = int(t[1]), int(t[2])
            src = self.slots[b] if op == "upd" else self.slots[a]
            if src is None or (op == "upd" and self.slots[a] is None):
                return "bad-slot"
        else:
            g = self.slots[int(t[1])]
            if g is None:
                return "bad-slot"
        try:
            if op == "upd":
                self.slots[a].update(self.slots[b], excluded_names=parse_list(t[3]), merge=t[4] == "1")
            elif op == "names":
                g.update_from_names(parse_list(t[2]), merge=t[3] == "1")
            elif op == "types":
                g.update_from_types({k: PYTYPES[v] for k, v in parse_kvs(t[2])}, merge=t[3] == "1")
            elif op == "data":
                g.update_from_data({k: value_of(v) for k, v in parse_kvs(t[2])}, merge=t[3] == "1")
            elif op == "schema":
                schema: dict[str, Any] = {
                    "$schema": "http://json-schema.org/draft-04/schema",
                    "type": "object",
                    "properties": {k: schema_of_jtype(v) for k, v in parse_kvs(t[2])},
                }
                if t[3] != "-":
                    schema["required"] = t[3].split(",")
                g.update_from_schema(schema, merge=t[4] == "1")
            elif op == "restrict":
                g.restrict_to(parse_list(t[2]))
            elif op == "rename":
                g.rename_element(t[2], t[3])
            elif op == "del":
                del g[t[2]]
            elif op == "addns":
                g.add_namespace(t[2], t[3])
            elif op == "clear":
                g.clear()
            elif op == "copy":
                self.slots[b] = self.slots[a].copy()
            elif op == "pickle":
                self.slots[b] = pickle.loads(pickle.dumps(self.slots[a]))
            elif op == "dcopy":
                self.slots[b] = _copy.deepcopy(self.slots[a])
            elif op == "setdef":
                g.defaults[t[2]] = int(t[3])
            elif op == "deldef":
                g.defaults.pop(t[2], None)
            elif op == "defaults":
                g.defaults = {k: int(v) for k, v in parse_kvs(t[2])}
            elif op == "reqadd":
                g.required_names.add(t[2])
            elif op == "reqdisc":
                g.required_names.discard(t[2])
            elif op == "defupd":
                g.defaults.update({k: int(v) for k, v in parse_kvs(t[2])})
            elif op == "defupdfrom":
                g.defaults.update(self.slots[int(t[2])].defaults)
            elif op == "defassignfrom":
                g.defaults = self.slots[int(t[2])].defaults
            elif op == "defclear":
                g.defaults.clear()
            elif op == "defrestore":
                if t[3] == "u":
                    g.defaults.update(self.snaps[int(t[2])])
                else:
                    g.defaults = self.snaps[int(t[2])]
            elif op == "reqremove":
                g.required_names.remove(t[2])
            elif op == "reqclear":
                g.required_names.clear()
            elif op == "requpd":
                rn = g.required_names
                rn |= parse_list(t[2])
            elif op == "reqsub":
                rn = g.required_names
                rn -= set(parse_list(t[2]))
            elif op == "reqand":
                rn = g.required_names
                rn &= set(parse_list(t[2]))
            elif op == "reqassign":
                g.required_names = set(parse_list(t[2]))
            elif op == "val":
                return "v=1" if accepts(g, {k: value_of(v) for k, v in parse_kvs(t[2])}) else "v=0"
            elif op == "qschema":
                s = g.schema
                props = s.get("properties", {})
                return (
                    "snap{"
                    + ",".join(f"{n}={jtype_of_schema(p)}" for n, p in props.items())
                    + "}r{"
                    + ",".join(sorted(s.get("required", [])))
                    + "}"
                )
            elif op == "qjson":
                s = json.loads(g.to_json())
                props = s.get("properties", {})
                return (
                    "snap{"
                    + ",".join(f"{n}={jtype_of_schema(p)}" for n, p in props.items())
                    + "}r{"
                    + ",".join(sorted(s.get("required", [])))
                    + "}"
                )
            elif op == "qsimple":
                return "simple" + self.show_grammar(g.to_simple_grammar())
            elif op == "qmisc":
                names = parse_list(t[2])
                h = g.has_names(names)
                repr(g)
                str(g)
                _ = [n in g for n in names]
                _ = list(g.names)
                return f"misc={1 if h else 0};{','.join(g.names_without_namespace)};{len(g)}"
            else:
                raise ValueError(f"unknown op {op}")
        except Exception as e:  # noqa: BLE001
            return exc_tag(e)
        return "ok"


def accepts(g: Any, data: dict[str, Any]) -> bool:
    from gemseo.core.grammars.errors import InvalidDataError

    try:
        g.validate(data)
    except InvalidDataError:
        return False
    return True


# --------------------------------------------------------------------------- oracle (property text)

QUERIES = {"val", "qschema", "qjson", "qsimple", "qmisc"}
VALUE_TOKENS = ["z", "b", "i", "f", "s", "d", "D", "c", "nd:ff", "nd:ii", "nd:", "l:ii", "l:ff", "l:ss", "l:", "l:is", "l:fz", "l:L", "t:ii", "l:b", "l:d"]


def cast_ref(v: Any) -> Any:
    """JSON view of a Python value for the reference validator (arrays/tuples are JSON arrays,
    a complex number is represented by its real part — the documented convention of JSONGrammar)."""
    from numpy import ndarray

    if isinstance(v, complex):
        return v.real
    if isinstance(v, ndarray):
        return v.real.tolist()
    if isinstance(v, (list, tuple)):
        return [cast_ref(x) for x in v]
    if isinstance(v, dict):
        return {k: cast_ref(x) for k, x in v.items()}
    return v


def ref_validator(schema: dict[str, Any]):
    import jsonschema

    with warnings.catch_warnings():
        warnings.simplefilter("ignore")
        cls = jsonschema.validators.validator_for(schema)
    return cls(schema)


def allowed_json(prop: dict[str, Any], value: Any) -> bool:
    """JSON-schema meaning of a property schema of the fragment (from the spec, not from any validator)."""
    v = cast_ref(value)
    subs = _subschemas(prop)
    if all(s.get("type") is None for s in subs):
        return True
    for s in subs:
        t = s.get("type")
        if t is None:
            continue
        if t == "null" and v is None:
            return True
        if t == "boolean" and isinstance(v, bool):
            return True
        if t == "integer" and isinstance(v, int) and not isinstance(v, bool):
            return True
        if t == "number" and isinstance(v, (int, float)) and not isinstance(v, bool):
            return True
        if t == "string" and isinstance(v, str):
            return True
        if t == "object" and isinstance(v, dict):
            return True
        if t == "array" and isinstance(v, list):
            if "items" not in s or all(allowed_json(s["items"], x) for x in v):
                return True
    return False


def definition_of(g: Any) -> dict[str, Any]:
    """The current public definition: element types, required names."""
    from gemseo.core.grammars.simple_grammar import SimpleGrammar

    if isinstance(g, SimpleGrammar):
        return {"kind": "S", "types": {n: g[n] for n in g.keys()}, "required": set(g.required_names)}
    return {"kind": "J", "types": {n: g[n].to_schema() for n in g.keys()}, "required": set(g.required_names)}


def expected_verdict(defn: dict[str, Any], data: dict[str, Any]) -> bool | None:
    """accepted <=> every required name present and every present value has an allowed type.
    None when an element type is outside the fragment the harness understands."""
    if not all(r in data for r in defn["required"]):
        return False
    for n, t in defn["types"].items():
        if n not in data:
            continue
        if defn["kind"] == "S":
            if t is not None and not isinstance(data[n], t):
                return False
        else:
            if jtype_of_schema(t).startswith("?"):
                return None
            if not allowed_json(t, data[n]):
                return False
    return True


def good_value_token(rng: common.Rng, g: Any, name: str) -> str:
    """A value token likely to be accepted by the element (sampled by trial on the spec predicate)."""
    defn_t = definition_of(g)["types"][name]
    kind = definition_of(g)["kind"]
    cands = list(VALUE_TOKENS)
    rng.shuffle(cands)
    for tok in cands:
        v = value_of(tok)
        if kind == "S":
            if defn_t is None or isinstance(v, defn_t):
                return tok
        elif jtype_of_schema(defn_t).startswith("?") or allowed_json(defn_t, v):
            return tok
    return cands[0]


def battery(rng: common.Rng, g: Any, n_random: int = 3) -> list[dict[str, str]]:
    """Data dictionaries (name -> value token) probing the current definition of g."""
    keys = list(g.keys())
    req = sorted(g.required_names)
    good = {k: good_value_token(rng, g, k) for k in keys}
    out: list[dict[str, str]] = [dict(good), {}]
    if req:
        d = dict(good)
        d.pop(rng.pick(req), None)
        out.append(d)
        out.append({k: good[k] for k in req if k in good})
    if keys:
        d = dict(good)
        d[rng.pick(keys)] = rng.pick(VALUE_TOKENS)
        out.append(d)
        opt = [k for k in keys if k not in req]
        if opt:
            d = dict(good)
            d.pop(rng.pick(opt), None)
            out.append(d)
    d = dict(good)
    d["extra"] = rng.pick(VALUE_TOKENS)
    out.append(d)
    for _ in range(n_random):
        out.append({k: rng.pick(VALUE_TOKENS) for k in keys if rng.chance(0.8)})
    return out


def check_grammar(g: Any, rng: common.Rng, bad: list[tuple[str, str]], where: str, datas=None) -> None:
    """Clauses (i), (ii), (iii) on one real grammar."""
    from gemseo.core.grammars.json_grammar import JSONGrammar
    from gemseo.core.grammars.simple_grammar import SimpleGrammar

    keys = set(g.keys())
    req = set(g.required_names)
    dfl = set(g.defaults)
    if not req <= keys:
        bad.append(("wf-required", f"{where}: required names {sorted(req - keys)} are not elements {sorted(keys)}"))
    if not dfl <= keys:
        bad.append(("wf-defaults", f"{where}: defaults {sorted(dfl - keys)} are not elements {sorted(keys)}"))
    if len(g) != len(keys) or any(k not in g for k in keys):
        bad.append(("wf-mapping", f"{where}: keys()/len()/in disagree"))
    defn = definition_of(g)
    datas = battery(rng, g) if datas is None else datas
    is_json = isinstance(g, JSONGrammar)
    ref = ref_s = fresh = None
    sj = None
    if is_json:
        sj = json.loads(g.to_json())
        if set(sj.get("properties", {})) != keys:
            bad.append(("to-json-properties", f"{where}: to_json() properties {sorted(sj.get('properties', {}))} != keys {sorted(keys)}"))
        if set(sj.get("required", [])) != req:
            bad.append(("to-json-required", f"{where}: to_json() required {sorted(sj.get('required', []))} != required_names {sorted(req)}"))
        ref = ref_validator(sj)
        fresh = JSONGrammar("fresh")
        fresh.update_from_schema(
            {"$schema": sj.get("$schema", ""), "type": "object", "properties": defn["types"]}
        )
        for r in sorted(req & keys):
            fresh.required_names.add(r)
        sd = _copy.deepcopy(g.schema)
        if set(sd.get("required", [])) != req:
            bad.append(("schema-required", f"{where}: the `schema` property requires {sorted(sd.get('required', []))} but required_names is {sorted(req)}"))
        ref_s = ref_validator({k: v for k, v in sd.items() if k != "id"})
        cached = sd.get("properties", {})
        if {n: jtype_of_schema(p) for n, p in cached.items()} != {n: jtype_of_schema(p) for n, p in defn["types"].items()}:
            bad.append(("stale-schema", f"{where}: the `schema` property shows properties {cached} but the elements are {defn['types']}"))
    elif isinstance(g, SimpleGrammar):
        fresh = SimpleGrammar("fresh", names_to_types=dict(defn["types"]), required_names=sorted(req & keys))
    for d in datas:
        data = {k: value_of(v) for k, v in d.items()}
        got = accepts(g, data)
        exp = expected_verdict(defn, data)
        if exp is not None and got is not exp:
            bad.append(("accept-iff", f"{where}: validate({d}) = {got} but the current definition (required {sorted(req)}, types {_types_str(defn)}) says {exp}"))
        if ref is not None:
            r = bool(ref.is_valid(cast_ref(data)))
            if got is not r:
                bad.append(("ref-validator", f"{where}: validate({d}) = {got} but the reference validator on to_json() = {json.dumps(sj)} says {r}"))
            r = bool(ref_s.is_valid(cast_ref(data)))
            if got is not r:
                bad.append(("ref-validator-schema", f"{where}: validate({d}) = {got} but the reference validator on the `schema` property = {json.dumps(sd)} says {r}"))
        if fresh is not None:
            f = accepts(fresh, data)
            if f is not got:
                bad.append(("fresh-twin", f"{where}: validate({d}) = {got} but a fresh grammar built from the current definition says {f}"))


def _types_str(defn: dict[str, Any]) -> str:
    if defn["kind"] == "S":
        return "{" + ",".join(f"{n}={pytype_token(t)}" for n, t in defn["types"].items()) + "}"
    return "{" + ",".join(f"{n}={jtype_of_schema(t)}" for n, t in defn["types"].items()) + "}"


def targets_of(line: str) -> set[int]:
    """Slots an operation is allowed to change (frame condition)."""
    t = line.split()
    op = t[0]
    if op in QUERIES:
        return set()
    if op == "reset":
        return set(range(NSLOTS))
    if op in ("copy", "pickle", "dcopy"):
        return {int(t[2])}
    if op == "defsnap":
        return set()
    return {int(t[1])}


def expected_exception(w: ImplWorld, line: str) -> str | None:
    """Documented exception of an edit given the CURRENT public state (None = must succeed,
    '?' = not specified by the documentation)."""
    from gemseo.core.grammars.json_grammar import JSONGrammar
    from gemseo.core.grammars.simple_grammar import SimpleGrammar

    t = line.split()
    op = t[0]
    if op in ("reset", "new", "clear", "copy", "pickle", "dcopy", "deldef", "reqdisc", "defclear", "reqclear", "reqsub", "reqand", "defsnap"):
        return None
    g = w.slots[int(t[1])]
    if g is None:
        return "?"
    keys = set(g.keys())
    if op == "defupd":
        return None if {k for k, _ in parse_kvs(t[2])} <= keys else "E:key"
    if op in ("defupdfrom", "defassignfrom"):
        src = w.slots[int(t[2])]
        return "?" if src is None else (None if set(src.defaults) <= keys else "E:key")
    if op == "defrestore":
        sn = w.snaps[int(t[2])]
        return "?" if sn is None else (None if set(sn) <= keys else "E:key")
    if op == "reqremove":
        return None if t[2] in set(g.required_names) else "E:key"
    if op == "requpd":
        return None if set(parse_list(t[2])) <= keys else "E:key"
    if op == "reqassign":
        return "E:attr"
    simple = isinstance(g, SimpleGrammar)
    if op in ("names", "types", "data"):
        args = parse_list(t[2]) if op == "names" else parse_kvs(t[2])
        if not args:
            return None
        if simple and t[3] == "1":
            return "E:value"
        if op == "types" and not simple and any(v in ("dict", "none") for _, v in args):
            return "E:key"
        return None
    if op == "upd":
        src = w.slots[int(t[2])]
        if src is None:
            return "?"
        if len(src) == 0:
            return None
        if simple and t[4] == "1":
            return "E:value"
        if not simple and not isinstance(src, JSONGrammar):
            return "E:type"
        if simple and isinstance(src, JSONGrammar):
            return "?"  # conversion of JSON types to Python types: not specified for every type
        return None
    if op == "schema":
        return "?" if simple else None
    if op == "restrict":
        return None if set(parse_list(t[2])) <= keys else "E:key"
    if op in ("rename", "del", "reqadd", "setdef"):
        return None if t[2] in keys else "E:key"
    if op == "addns":
        if t[2] not in keys:
            return "E:key"
        return "E:value" if ":" in t[2] else None
    if op == "defaults":
        return None if {k for k, _ in parse_kvs(t[2])} <= keys else "E:key"
    return "?"


def execute(lines: list[str], seed_key: str, heavy: bool, plain: list[str] | None = None) -> tuple[list[str], list[tuple[str, str]]]:
    """Execute a history on the real code. Always evaluated (they only read the public state): documented
    exceptions, frame condition, purity of the queries of the history, copy/pickle keep the definition.
    heavy=True (the "oracle run"): additionally clauses (i)-(iii) on every live grammar after every
    operation, and step-wise equality with the plain run (the extra queries must change nothing)."""
    rng = common.make_rng(0, "C15-oracle:" + seed_key)
    bad: list[tuple[str, str]] = []
    answers: list[str] = []
    w = ImplWorld()
    for idx, ln in enumerate(lines):
        t = ln.split()
        op = t[0]
        before = [w.show_slot(i) for i in range(NSLOTS)]
        exp_exc = expected_exception(w, ln)
        src_before = None
        if op in ("pickle", "dcopy") and w.slots[int(t[1])] is not None:
            src_before = w.show_slot(int(t[1]))
        st = w.apply(ln)
        after = [w.show_slot(i) for i in range(NSLOTS)]
        answers.append(st + "|" + "|".join(after))
        where = f"step {idx} `{ln}`"
        if st == "bad-slot" or bad:
            continue
        # (i) well-formedness, read from the public mappings only (no side effect)
        for i in range(NSLOTS):
            g = w.slots[i]
            if g is None:
                continue
            keys = set(g.keys())
            if not set(g.required_names) <= keys:
                bad.append(("wf-required", f"{where} slot {i}: required names {sorted(set(g.required_names) - keys)} are not elements {sorted(keys)}"))
            if not set(g.defaults) <= keys:
                bad.append(("wf-defaults", f"{where} slot {i}: defaults {sorted(set(g.defaults) - keys)} are not elements {sorted(keys)}"))
        # restriction: "restrict_to(names)" leaves exactly the elements named (whatever the multiplicity of a name)
        if op == "restrict" and st == "ok" and t[1].isdigit() and w.slots[int(t[1])] is not None:
            left = set(w.slots[int(t[1])].keys())
            wanted = set(parse_list(t[2]))
            if not left <= wanted:
                bad.append(("restrict-keeps-other-elements",
                            f"{where}: elements {sorted(left - wanted)} survive a restriction to {sorted(wanted)}"))
        # documented exceptions, exactly
        if exp_exc != "?" and op not in QUERIES:
            if exp_exc is None and st.startswith("E:"):
                bad.append((f"unexpected-exception:{op}", f"{where} raised {st} although its documented preconditions hold"))
            elif exp_exc is not None and st != exp_exc:
                bad.append((f"missing-exception:{op}", f"{where} answered {st}, documented: {exp_exc}"))
        # frame condition / purity of queries
        allowed = targets_of(ln)
        for i in range(NSLOTS):
            if i not in allowed and before[i] != after[i]:
                key = f"query-impure:{op}" if op in QUERIES else f"frame:{op}"
                bad.append((key, f"{where} changed slot {i}: {before[i]} -> {after[i]}"))
        partial = op in ("defupd", "defupdfrom", "requpd") or (op == "defrestore" and t[3] == "u")
        if st.startswith("E:") and op not in QUERIES and not partial:
            for i in allowed:
                if before[i] != after[i]:
                    bad.append((f"failed-op-changed-state:{op}", f"{where} raised {st} but changed slot {i}: {before[i]} -> {after[i]}"))
        # pickling / copying keeps the definition
        if op in ("pickle", "dcopy") and st == "ok" and src_before is not None:
            d = after[int(t[2])]
            if d != src_before:
                bad.append(("pickle-definition", f"{where}: unpickled grammar {d} differs from the pickled one {src_before}"))
        if op == "copy" and st == "ok":
            s, d = before[int(t[1])], after[int(t[2])]
            if s != d:
                bad.append(("copy-definition", f"{where}: copy {d} differs from the original {s}"))
        if not heavy:
            continue
        # per-grammar clauses on every live slot
        for i in range(NSLOTS):
            g = w.slots[i]
            if g is not None:
                check_grammar(g, rng, bad, f"{where} slot {i}")
        after2 = [w.show_slot(i) for i in range(NSLOTS)]
        if after2 != after:
            bad.append(("query-impure:oracle-battery", f"{where}: validating/serialising changed the public state {after} -> {after2}"))
        if plain is not None and plain[idx] != st + "|" + "|".join(after2):
            bad.append(("twin-divergence", f"{where}: the same history with extra read-only queries after every step gives {st}|{'|'.join(after2)} instead of {plain[idx]}"))
    return answers, bad


def run_impl(lines: list[str]) -> list[str]:
    return execute(lines, "", False)[0]


# ---- (iv) SimpleGrammar vs JSONGrammar on shared definitions

SHARED_TYPES = {"any", "nd", "str", "int", "float", "bool"}
SHARED_VALUE_TOKENS = ["nd:ff", "s", "f", "i", "b", "nd:"]


SHARED_DATA_TOKENS = {"s", "i", "f", "b", "nd:ff"}


def shared_expressible(lines: list[str]) -> bool:
    """Histories whose every edit means the same for a SimpleGrammar and a JSONGrammar."""
    kinds = {ln.split()[2] for ln in lines if ln.startswith("new ")}
    if len(kinds) != 1:
        return False
    for ln in lines:
        t = ln.split()
        op = t[0]
        if op in ("schema", "qschema", "qjson", "qsimple"):
            return False
        if op in ("names", "types", "data") and t[3] == "1":
            return False
        if op == "upd" and t[4] == "1":
            return False
        if op == "types" and any(v not in SHARED_TYPES for _, v in parse_kvs(t[2])):
            return False
        if op == "data" and any(v not in SHARED_DATA_TOKENS for _, v in parse_kvs(t[2])):
            return False
    return True


def compatible(ptype: str, tok: str) -> bool:
    """Values on which `isinstance` and the JSON type of the same declaration mean the same."""
    if ptype == "any":
        return True
    if tok.startswith("nd:"):
        return True  # an array is an array for both (ndarray <-> "array")
    if tok == "s" or tok == "f":
        return True
    if tok == "i":
        return ptype not in ("float",)  # 3 is a JSON number but not a Python float
    if tok == "b":
        return ptype != "int"  # True is a Python int but not a JSON integer
    return False


def mirror(lines: list[str]) -> list[str]:
    out = []
    for ln in lines:
        t = ln.split()
        if t[0] == "new":
            t[2] = "S" if t[2] == "J" else "J"
        out.append(" ".join(t))
    return out


def agreement_run(lines: list[str], seed_key: str) -> list[tuple[str, str]]:
    rng = common.make_rng(0, "C15-agree:" + seed_key)
    bad: list[tuple[str, str]] = []
    wa, wb = ImplWorld(), ImplWorld()
    mlines = mirror(lines)
    for idx, (la, lb) in enumerate(zip(lines, mlines)):
        sa, sb = wa.apply(la), wb.apply(lb)
        where = f"step {idx} `{la}`"
        if sa != sb and la.split()[0] != "val":
            bad.append(("simple-json-disagree", f"{where}: answers {sa} (as written) vs {sb} (other grammar class)"))
            break
        for i in range(NSLOTS):
            ga, gb = wa.slots[i], wb.slots[i]
            if (ga is None) != (gb is None):
                bad.append(("simple-json-disagree", f"{where}: slot {i} exists in one run only"))
                break
            if ga is None:
                continue
            pa = (list(ga.keys()), sorted(ga.required_names), sorted(ga.defaults.items()), dict(ga.to_namespaced), dict(ga.from_namespaced))
            pb = (list(gb.keys()), sorted(gb.required_names), sorted(gb.defaults.items()), dict(gb.to_namespaced), dict(gb.from_namespaced))
            if pa != pb:
                bad.append(("simple-json-disagree", f"{where} slot {i}: names/required/defaults/namespaces differ: {pa} vs {pb}"))
                break
            from gemseo.core.grammars.simple_grammar import SimpleGrammar

            gs = ga if isinstance(ga, SimpleGrammar) else gb
            ptypes = {n: pytype_token(gs[n]) for n in gs.keys()}
            for _ in range(4):
                d = {}
                for n, pt in ptypes.items():
                    if rng.chance(0.85):
                        toks = [v for v in SHARED_VALUE_TOKENS if compatible(pt, v)]
                        d[n] = rng.pick(toks)
                data = {k: value_of(v) for k, v in d.items()}
                va, vb = accepts(ga, data), accepts(gb, data)
                if va is not vb:
                    bad.append(("simple-json-disagree", f"{where} slot {i}: validate({d}) is {va} for {type(ga).__name__} and {vb} for {type(gb).__name__} (types {ptypes})"))
                    break
        if bad:
            break
    return bad


# --------------------------------------------------------------------------- generation

NAMES = ["a", "b", "c", "x", "y", "z"]
NSPACES = ["n", "m"]
TYPE_TOKENS = ["any", "nd", "list", "tuple", "str", "int", "float", "complex", "bool"]
JTYPES = ["*", "I", "N", "S", "B", "Z", "O", "A", "A[N]", "A[I]", "A[S]", "I+S", "N+A[N]", "S+A[I/S]", "Z+N", "B+I", "A[N/S]", "A[A]", "O+S"]
DATA_TOKENS = ["z", "b", "i", "f", "s", "d", "c", "nd:ff", "nd:ii", "nd:", "l:ii", "l:ff", "l:ss", "l:", "t:ii", "l:d"]
MIXED_DATA_TOKENS = ["l:is", "l:fi", "l:if", "l:sz"]


class Gen:
    """Generator of histories; keeps a rough shadow of which names each slot holds (only to bias the choice
    towards meaningful arguments — it is never used as an expectation)."""

    def __init__(self, rng: common.Rng, style: str) -> None:
        self.rng = rng
        self.style = style  # "J", "S", "mixed", "shared" (one class, only edits both classes can express)
        self.shared_kind = rng.pick(["J", "S"])
        self.kind: dict[int, str] = {}
        self.keys: dict[int, list[str]] = {}
        self.lines: list[str] = []
        self.probe_lines: list[int] = []
        self.focus = rng.pick(["", "", "", "ns", "required", "defaults"])

    def some_names(self, s: int, lo: int = 1, hi: int = 3, fresh: float = 0.5) -> list[str]:
        rng = self.rng
        n = rng.randint(lo, hi)
        out: list[str] = []
        for _ in range(n):
            if self.keys.get(s) and not rng.chance(fresh):
                c = rng.pick(self.keys[s])
            else:
                c = rng.pick(NAMES)
            if c not in out:
                out.append(c)
        return out

    def existing(self, s: int, p_missing: float = 0.08) -> str:
        rng = self.rng
        if self.keys.get(s) and not rng.chance(p_missing):
            return rng.pick(self.keys[s])
        return rng.pick(NAMES)

    def live(self) -> list[int]:
        return sorted(self.kind)

    def add(self, line: str) -> None:
        self.lines.append(line)

    def note_keys(self, s: int, names: list[str]) -> None:
        ks = self.keys.setdefault(s, [])
        for n in names:
            if n not in ks:
                ks.append(n)

    def new(self, s: int) -> None:
        if self.style == "shared":
            k = self.shared_kind
        else:
            k = self.style if self.style in ("J", "S") else self.rng.pick(["J", "S"])
        self.kind[s] = k
        self.keys[s] = []
        self.add(f"new {s} {k}")

    def query(self, s: int) -> None:
        rng = self.rng
        k = self.kind[s]
        r = rng.random()
        if self.style == "shared" and r >= 0.5:
            r = 0.95
        if r < 0.5:
            ks = self.keys.get(s, [])
            toks = VALUE_TOKENS
            d = {n: rng.pick(["nd:ff", "nd:ff", "i", "f", "s", rng.pick(toks)]) for n in ks if rng.chance(0.8)}
            if rng.chance(0.15):
                d["extra"] = rng.pick(toks)
            self.add(f"val {s} " + (",".join(f"{a}={b}" for a, b in d.items()) or "-"))
        elif r < 0.65 and k == "J":
            self.add(f"qschema {s}")
        elif r < 0.8 and k == "J":
            self.add(f"qjson {s}")
        elif r < 0.88:
            if k == "J":
                self.probe_lines.append(len(self.lines) + 1)  # conversion of arbitrary JSON types is not specified
            self.add(f"qsimple {s}")
        else:
            self.add(f"qmisc {s} " + (",".join(self.some_names(s, 0, 2)) or "-"))

    def edit(self) -> None:
        rng = self.rng
        live = self.live()
        s = rng.pick(live)
        k = self.kind[s]
        merge_ok = k == "J"
        merge = "1" if (merge_ok and rng.chance(0.35)) or (not merge_ok and rng.chance(0.04)) else "0"
        shared = self.style == "shared"
        if shared:
            merge = "0"
        weights = {"names": 4, "types": 4, "data": 3, "schema": 3, "upd": 4, "restrict": 2, "rename": 3, "del": 3,
                   "addns": 2, "clear": 1, "copy": 3, "pickle": 3, "setdef": 3, "deldef": 1, "defaults": 1,
                   "reqadd": 2, "reqdisc": 3, "new": 1, "defupd": 1, "defupdfrom": 2, "defassignfrom": 1, "defclear": 1,
                   "defsnap": 2, "defrestore": 2, "reqremove": 1, "reqclear": 1, "requpd": 1, "reqsub": 1, "reqand": 1, "reqassign": 1}
        if shared:
            weights["schema"] = 0
        if self.focus == "ns":
            weights.update({"addns": 8, "upd": 8, "copy": 5, "pickle": 3})
        elif self.focus == "required":
            weights.update({"reqadd": 6, "reqdisc": 8, "rename": 5, "del": 5, "restrict": 4, "copy": 5, "pickle": 5, "schema": 5 if not shared else 0,
                            "reqremove": 4, "reqclear": 2, "requpd": 4, "reqsub": 3, "reqand": 3})
        elif self.focus == "defaults":
            weights.update({"setdef": 8, "defaults": 4, "deldef": 3, "rename": 6, "upd": 6, "copy": 4, "del": 5, "restrict": 3, "addns": 3,
                            "defupd": 4, "defupdfrom": 6, "defassignfrom": 4, "defsnap": 6, "defrestore": 6, "defclear": 1})
        op = rng.pick([o for o, n in weights.items() for _ in range(n)])
        if op == "names":
            ns = self.some_names(s)
            self.add(f"names {s} {','.join(ns)} {merge}")
            self.note_keys(s, ns)
        elif op == "types":
            ns = self.some_names(s)
            toks = sorted(SHARED_TYPES) if shared else TYPE_TOKENS + (["dict", "none"] if k == "S" or rng.chance(0.05) else [])
            self.add(f"types {s} " + ",".join(f"{n}={rng.pick(toks)}" for n in ns) + f" {merge}")
            self.note_keys(s, ns)
        elif op == "data":
            ns = self.some_names(s)
            toks = sorted(SHARED_DATA_TOKENS) if shared else DATA_TOKENS + (MIXED_DATA_TOKENS if rng.chance(0.2) else [])
            self.add(f"data {s} " + ",".join(f"{n}={rng.pick(toks)}" for n in ns) + f" {merge}")
            self.note_keys(s, ns)
        elif op == "schema":
            if k != "J":
                return self.edit()
            ns = self.some_names(s)
            req = [n for n in ns if rng.chance(0.5)]
            self.add(f"schema {s} " + ",".join(f"{n}={rng.pick(JTYPES)}" for n in ns) + f" {','.join(req) or '-'} {merge}")
            self.note_keys(s, ns)
        elif op == "upd":
            if len(live) < 2 and rng.chance(0.9):
                return self.copy_like("copy")
            src = rng.pick(live)
            excl = [n for n in self.keys.get(src, []) if rng.chance(0.2)]
            if rng.chance(0.1):
                excl.append(rng.pick(NAMES))
            if self.kind[src] != k and k == "S":
                self.probe_lines.append(len(self.lines) + 1)  # JSON -> Simple conversion of arbitrary types: not specified
            self.add(f"upd {s} {src} {','.join(dict.fromkeys(excl)) or '-'} {merge}")
            self.note_keys(s, [n for n in self.keys.get(src, []) if n not in excl])
        elif op == "restrict":
            ks = self.keys.get(s, [])
            ns = [n for n in ks if rng.chance(0.6)]
            if rng.chance(0.06):
                ns.append(rng.pick(NAMES))
            ns = list(dict.fromkeys(ns))
            if ns and rng.chance(0.3):
                # the same name given several times (possibly as many items as the grammar has elements)
                reps = max(1, len(ks) - len(ns)) if rng.chance(0.6) else rng.pick([1, 2])
                ns = ns + [rng.pick(ns) for _ in range(reps)]
                rng.shuffle(ns)
            self.add(f"restrict {s} {','.join(ns) or '-'}")
            self.keys[s] = [n for n in ks if n in ns]
        elif op == "rename":
            cur = self.existing(s)
            new = rng.pick(NAMES + ["w", "v"]) if rng.chance(0.8) else self.existing(s)
            self.add(f"rename {s} {cur} {new}")
            if cur in self.keys.get(s, []):
                self.keys[s] = [n for n in self.keys[s] if n != cur]
                self.note_keys(s, [new])
        elif op == "del":
            n = self.existing(s)
            self.add(f"del {s} {n}")
            self.keys[s] = [x for x in self.keys.get(s, []) if x != n]
        elif op == "addns":
            n = self.existing(s)
            ns = rng.pick(NSPACES)
            self.add(f"addns {s} {n} {ns}")
            if n in self.keys.get(s, []) and ":" not in n:
                self.keys[s] = [x for x in self.keys[s] if x != n]
                self.note_keys(s, [f"{ns}:{n}"])
        elif op == "clear":
            self.add(f"clear {s}")
            self.keys[s] = []
        elif op in ("copy", "pickle"):
            self.copy_like("dcopy" if op == "pickle" and rng.chance(0.3) else op)
        elif op == "setdef":
            self.add(f"setdef {s} {self.existing(s)} {rng.randint(1, 9)}")
        elif op == "deldef":
            self.add(f"deldef {s} {self.existing(s)}")
        elif op == "defaults":
            ns = [n for n in self.keys.get(s, []) if rng.chance(0.4)]
            if rng.chance(0.06):
                ns.append(rng.pick(NAMES))
            self.add(f"defaults {s} " + (",".join(f"{n}={rng.randint(1, 9)}" for n in dict.fromkeys(ns)) or "-"))
        elif op == "defupd":
            ns = [n for n in self.keys.get(s, []) if rng.chance(0.5)]
            if rng.chance(0.15):
                ns.insert(rng.randint(0, len(ns)), rng.pick(NAMES))
            self.add(f"defupd {s} " + (",".join(f"{n}={rng.randint(1, 9)}" for n in dict.fromkeys(ns)) or "-"))
        elif op in ("defupdfrom", "defassignfrom"):
            self.add(f"{op} {s} {rng.pick(live)}")
        elif op == "defclear":
            self.add(f"defclear {s}")
        elif op == "defsnap":
            self.add(f"defsnap {s} {rng.randint(0, 1)}")
            self.snapped = True
        elif op == "defrestore":
            if not getattr(self, "snapped", False):
                self.add(f"defsnap {s} 0")
                self.snapped = True
                return
            self.add(f"defrestore {s} {rng.randint(0, 1)} {rng.pick('ua')}")
        elif op == "reqremove":
            self.add(f"reqremove {s} {self.existing(s, 0.2)}")
        elif op == "reqclear":
            self.add(f"reqclear {s}")
        elif op in ("requpd", "reqsub", "reqand", "reqassign"):
            self.add(f"{op} {s} {','.join(self.some_names(s, 1, 3, fresh=0.15)) or '-'}")
        elif op == "reqadd":
            self.add(f"reqadd {s} {self.existing(s)}")
        elif op == "reqdisc":
            self.add(f"reqdisc {s} {self.existing(s, 0.15)}")
        elif op == "new":
            free = [i for i in range(NSLOTS) if i not in self.kind]
            self.new(rng.pick(free) if free else rng.pick(live))

    def copy_like(self, op: str) -> None:
        rng = self.rng
        src = rng.pick(self.live())
        cands = [i for i in range(NSLOTS) if i != src]
        free = [i for i in cands if i not in self.kind]
        dst = rng.pick(free) if free and rng.chance(0.7) else rng.pick(cands)
        self.add(f"{op} {src} {dst}")
        self.kind[dst] = self.kind[src]
        self.keys[dst] = list(self.keys.get(src, []))


def gen_case(rng: common.Rng) -> dict[str, Any]:
    style = rng.pick(["J"] * 5 + ["S"] * 2 + ["mixed"] * 2 + ["shared"] * 3)
    g = Gen(rng, style)
    g.new(0)
    n = rng.pick([2, 3, 4, 5, 6, 8, 10, 12, 15, 20])
    p_query = rng.pick([0.0, 0.15, 0.3, 0.5])
    for _ in range(n):
        g.edit()
        if rng.chance(p_query):
            g.query(rng.pick(g.live()))
    if rng.chance(0.7):
        g.query(rng.pick(g.live()))
    return {"ops": ["reset", *g.lines], "probe_lines": g.probe_lines}


# --------------------------------------------------------------------------- checking

def case_key(case: dict[str, Any]) -> str:
    return "\n".join(case["ops"])


def oracle_case(case: dict[str, Any]) -> tuple[list[str], list[tuple[str, str]]]:
    """Plain run (light checks), oracle run (heavy checks + twin equality), agreement run. Returns the
    answers of the plain run and the violated clauses."""
    lines = case["ops"]
    key = case_key(case)
    plain, bad = execute(lines, key, False)
    if not bad:
        bad = execute(lines, key, True, plain)[1]
    if not bad and shared_expressible(lines):
        bad = agreement_run(lines, key)
    return plain, bad


def shrink_case(case: dict[str, Any], key: str) -> dict[str, Any]:
    def fails(ops: list[str]) -> bool:
        c = {"ops": ["reset", *ops], "probe": False}
        try:
            return any(k == key for k, _ in oracle_case(c)[1])
        except Exception:  # noqa: BLE001
            return False

    ops = case["ops"][1:]
    if len(ops) <= 1:
        return case
    small = common.shrink_list(ops, fails, budget=150)
    return {"ops": ["reset", *small], "probe": False}


def neighbours(case: dict[str, Any], rng: common.Rng):
    ops = case["ops"][1:]
    for i in range(len(ops)):
        yield {"ops": ["reset", *ops[:i], *ops[i + 1 :]], "probe": False}
    for i in range(len(ops)):
        yield {"ops": ["reset", *ops[: i + 1], ops[i], *ops[i + 1 :]], "probe": False}
    for i in range(len(ops) - 1):
        yield {"ops": ["reset", *ops[:i], ops[i + 1], ops[i], *ops[i + 2 :]], "probe": False}
    # queries inserted after every op
    for q in ("qschema", "qjson", "val"):
        new = ["reset"]
        for ln in ops:
            new.append(ln)
            t = ln.split()
            if t[0] not in QUERIES and t[0] not in ("new", "defsnap", "defrestore"):
                s = t[2] if t[0] in ("copy", "pickle", "dcopy") else t[1]
                new.append(f"{q} {s}" + (" -" if q == "val" else ""))
        yield {"ops": new, "probe": False}
    # pickle / copy round trips appended
    for s in range(NSLOTS):
        for op in ("pickle", "copy"):
            yield {"ops": ["reset", *ops, f"{op} {s} {(s + 1) % NSLOTS}", f"qjson {(s + 1) % NSLOTS}", f"val {(s + 1) % NSLOTS} -"], "probe": False}


def report_oracle(res: Result, case: dict[str, Any], bad: list[tuple[str, str]]) -> None:
    for key, msg in bad[:3]:
        if any(v.key == key and v.kind == "oracle" for v in res.violations):
            continue
        small = shrink_case(case, key)
        msgs = [m for k, m in oracle_case(small)[1] if k == key]
        res.violate("oracle", key, (msgs[0] if msgs else msg), {"case": small, "original_length": len(case["ops"]) - 1})


def check_cases(res: Result, cases: list[dict[str, Any]], rng: common.Rng, deadline: float) -> None:
    all_lines: list[str] = []
    for c in cases:
        all_lines += c["ops"]
    model = common.run_lean_driver(PID, all_lines)
    pos = 0
    for case in cases:
        lines = case["ops"]
        m = model[pos : pos + len(lines)]
        pos += len(lines)
        if time.time() > deadline:
            res.count("skipped-deadline")
            continue
        res.evaluations += 1
        probe_lines = set(case.get("probe_lines", []))
        impl, bad = oracle_case(case)
        n_edits = sum(1 for ln in lines[1:] if ln.split()[0] not in QUERIES)
        res.count(f"edits={min(n_edits, 20)//5*5}+")
        res.count("cases-with-probe-ops" if probe_lines else "cases-all-in-scope")
        for ln, a in zip(lines[1:], impl[1:]):
            op = ln.split()[0]
            res.count("op=" + op)
            st = a.split("|", 1)[0]
            if st.startswith("E:"):
                res.count("error=" + st)
            if op == "val":
                res.count("verdict=" + st)
        kinds = {ln.split()[2] for ln in lines if ln.startswith("new ")}
        res.count("kinds=" + "+".join(sorted(kinds)))
        if n_edits >= 3:
            res.nontrivial(case_key(case))
        res.sample({"ops": lines[1:6], "impl_last": impl[-1], "model_last": m[-1]})
        if bad:
            report_oracle(res, case, bad)
        if shared_expressible(lines):
            res.count("agreement-run")
        diff = next((i for i in range(len(lines)) if impl[i] != m[i]), None)
        if diff is None:
            res.traces_validated += 1
            continue
        res.disagreements += 1
        if diff in probe_lines:
            # operation outside the property's quantifier: informative only; the rest of the trace is not compared
            res.count("probe-disagreement")
            if len(res.notes) < 12:
                res.notes.append(f"out-of-scope probe disagreement at `{lines[diff]}`: impl={impl[diff].split('|')[0]} model={m[diff].split('|')[0]}")
            continue
        if bad:
            continue
        # failing-input search around the disagreement (bounded: 45 s per run in total)
        found = False
        pre = {"ops": lines[: diff + 1], "probe": False}
        t_search = time.time()
        for nb in [pre, *neighbours(pre, rng)]:
            if time.time() > deadline or res.extra.get("search_s", 0.0) + (time.time() - t_search) > 45:
                break
            try:
                b2 = oracle_case(nb)[1]
            except Exception:  # noqa: BLE001
                continue
            if b2:
                report_oracle(res, nb, b2)
                found = True
                break
        res.extra["search_s"] = round(res.extra.get("search_s", 0.0) + (time.time() - t_search), 2)
        if not found:
            res.violate(
                "correspondence",
                "model-vs-impl:" + lines[diff].split()[0],
                f"implementation and Lean model disagree after `{lines[diff]}` (no property-violating input found among the neighbours)",
                {"case": {"ops": lines[: diff + 1], "probe": False}, "protocol_line": lines[diff], "impl": impl[diff], "model": m[diff],
                 "correspondence": "Driver/C15.lean"},
            )


# --------------------------------------------------------------------------- PydanticGrammar stream (oracle only)
# The Lean model covers SimpleGrammar and JSONGrammar. PydanticGrammar is checked against the property
# text only, on the operations whose meaning it shares with the other classes: construction from a
# model, update_from_names/types, update(grammar), restrict_to, rename_element, del, add_namespace,
# clear, copy, pickle, defaults edits. (required_names edits and merges are not shared: the model decides.)

PYD_VALUES = {"int": "i", "float": "f", "str": "s", "bool": "b", "nd": "nd:ff", "list": "l:ii"}
# the operations that edit the fields of the model class of their target grammar (defaults edits do not)
PYD_MODEL_EDITS = {"upd", "names", "types", "restrict", "rename", "del", "addns"}
PYD_UNSPECIFIED = {("float", "i"), ("int", "b"), ("list", "nd:ff"), ("nd", "l:ii"), ("float", "b"), ("int", "f")}


def pyd_token(annotation: Any) -> str:
    from numpy import ndarray
    from typing_extensions import get_origin

    from gemseo.utils.pydantic_ndarray import _NDArrayPydantic

    origin = get_origin(annotation) or annotation
    for tok, t in (("bool", bool), ("int", int), ("float", float), ("str", str), ("list", list)):
        if origin is t:
            return tok
    if origin is _NDArrayPydantic or origin is ndarray:
        return "nd"
    return "?"


class PydWorld:
    def __init__(self) -> None:
        from harness import c15_models

        c15_models.fresh()
        self.models = c15_models
        self.slots: list[Any] = [None] * NSLOTS
        # which model class a slot validates with, as far as the documented behaviour tells: "ext:M1" for a
        # grammar built on (or unpickled from one built on) the user's model class M1, a unique tag otherwise
        self.origin: list[str] = [""] * NSLOTS
        # known finding `pydantic:model-shared`, exact input class: foreign[i] names the first successful edit
        # of the model class of slot i made through ANOTHER grammar while both shared that class ("" if none).
        # The mark follows the definition: a copy / an unpickled grammar / the target of update(marked grammar)
        # inherits it (their public definition was taken from a grammar whose model class somebody else
        # edited); a new or cleared grammar starts without it.
        self.foreign: list[str] = [""] * NSLOTS
        self._n = 0
        self.snaps: list[Any] = [None, None]

    def _internal(self) -> str:
        self._n += 1
        return f"int#{self._n}"

    def show_slot(self, i: int) -> str:
        g = self.slots[i]
        if g is None:
            return "_"
        elems = ",".join(f"{n}={pyd_token(g[n].annotation)}" for n in g.keys())

        def ns(m):
            return ",".join(f"{a}={b if isinstance(b, str) else '[' + '|'.join(b) + ']'}" for a, b in sorted(m.items()))

        return (
            f"P{{{elems}}}r{{{','.join(sorted(g.required_names))}}}d{{{','.join(sorted(g.defaults))}}}"
            f"t{{{ns(g.to_namespaced)}}}f{{{ns(g.from_namespaced)}}}"
        )

    def apply(self, line: str) -> str:
        from gemseo.core.grammars.pydantic_grammar import PydanticGrammar
        from gemseo.utils.pydantic_ndarray import NDArrayPydantic

        t = line.split()
        op = t[0]
        types = {"int": int, "float": float, "str": str, "bool": bool, "nd": NDArrayPydantic[float], "list": list}
        if op == "pnew":
            model = None if t[2] == "-" else getattr(self.models, t[2])
            self.slots[int(t[1])] = PydanticGrammar(f"g{t[1]}", model=model)
            self.origin[int(t[1])] = self._internal() if model is None else "ext:" + t[2]
            self.foreign[int(t[1])] = ""
            return "ok"
        if op in ("upd", "copy", "pickle"):
            a, b = int(t[1]), int(t[2])
            src = self.slots[b] if op == "upd" else self.slots[a]
            if src is None or (op == "upd" and self.slots[a] is None):
                return "bad-slot"
        else:
            g = self.slots[int(t[1])]
            if g is None:
                return "bad-slot"
            if op == "defsnap":
                self.snaps[int(t[2])] = g.defaults.copy()
                return "ok"
            if op == "defrestore" and self.snaps[int(t[2])] is None:
                return "bad-slot"
            if op == "defupdfrom" and self.slots[int(t[2])] is None:
                return "bad-slot"
        try:
            if op == "defupdfrom":
                g.defaults.update(self.slots[int(t[2])].defaults)
            elif op == "defrestore":
                if t[3] == "u":
                    g.defaults.update(self.snaps[int(t[2])])
                else:
                    g.defaults = self.snaps[int(t[2])]
            elif op == "upd":
                self.slots[a].update(self.slots[b], excluded_names=parse_list(t[3]))
            elif op == "names":
                g.update_from_names(parse_list(t[2]))
            elif op == "types":
                g.update_from_types({k: types[v] for k, v in parse_kvs(t[2])})
            elif op == "restrict":
                g.restrict_to(parse_list(t[2]))
            elif op == "rename":
                g.rename_element(t[2], t[3])
            elif op == "del":
                del g[t[2]]
            elif op == "addns":
                g.add_namespace(t[2], t[3])
            elif op == "clear":
                g.clear()
                self.origin[int(t[1])] = self._internal()
                self.foreign[int(t[1])] = ""
            elif op == "copy":
                self.slots[b] = self.slots[a].copy()
                # known finding: PydanticGrammar._copy keeps the very same model class (copy() of a class)
                self.origin[b] = self.origin[a]
                self.foreign[b] = self.foreign[a]
            elif op == "pickle":
                self.slots[b] = pickle.loads(pickle.dumps(self.slots[a]))
                # a user's model class is pickled by reference
                self.origin[b] = self.origin[a] if self.origin[a].startswith("ext:") else self._internal()
                self.foreign[b] = self.foreign[a]
            elif op == "setdef":
                g.defaults[t[2]] = int(t[3])
            elif op == "deldef":
                g.defaults.pop(t[2], None)
            else:
                raise ValueError(op)
        except Exception as e:  # noqa: BLE001
            return exc_tag(e)
        if op in PYD_MODEL_EDITS:
            s = int(t[1])
            if op == "upd" and self.foreign[int(t[2])]:
                self.foreign[s] = self.foreign[s] or self.foreign[int(t[2])]
            for j in range(NSLOTS):
                if j != s and self.slots[j] is not None and self.origin[j] == self.origin[s] and not self.foreign[j]:
                    self.foreign[j] = f"`{line}`"
        return "ok"


def pyd_expected_exception(w: PydWorld, line: str) -> str | None:
    t = line.split()
    op = t[0]
    if op in ("pnew", "clear", "copy", "pickle", "deldef", "names", "types", "upd", "defsnap"):
        return None
    g = w.slots[int(t[1])]
    if g is None:
        return "?"
    keys = set(g.keys())
    if op == "defupdfrom":
        src = w.slots[int(t[2])]
        return "?" if src is None else (None if set(src.defaults) <= keys else "E:key")
    if op == "defrestore":
        sn = w.snaps[int(t[2])]
        return "?" if sn is None else (None if set(sn) <= keys else "E:key")
    if op == "restrict":
        return None if set(parse_list(t[2])) <= keys else "E:key"
    if op in ("rename", "del", "setdef"):
        return None if t[2] in keys else "E:key"
    if op == "addns":
        if t[2] not in keys:
            return "E:key"
        return "E:value" if ":" in t[2] else None
    return "?"


def pyd_check_grammar(g: Any, rng: common.Rng, bad: list[tuple[str, str]], where: str) -> None:
    keys = list(g.keys())
    req = set(g.required_names)
    if not req <= set(keys):
        bad.append(("pydantic:wf-required", f"{where}: required names {sorted(req - set(keys))} are not elements {keys}"))
    if not set(g.defaults) <= set(keys):
        bad.append(("pydantic:wf-defaults", f"{where}: defaults {sorted(set(g.defaults) - set(keys))} are not elements {keys}"))
    model_required = {n for n in keys if g[n].is_required()}
    toks = {n: pyd_token(g[n].annotation) for n in keys}
    good = {n: PYD_VALUES.get(toks[n], "s") for n in keys}
    datas = [dict(good), {}, {n: good[n] for n in keys if n in req}]
    for n in keys[:4]:
        d = dict(good)
        del d[n]
        datas.append(d)
        d = dict(good)
        d[n] = rng.pick(sorted(PYD_VALUES.values()))
        datas.append(d)
    for d in datas:
        data = {k: value_of(v) for k, v in d.items()}
        got = accepts(g, data)
        exp: bool | None = all(r in d for r in req)
        if exp:
            for n, v in d.items():
                tk = toks.get(n)
                if tk is None:
                    continue
                if tk == "?" or (tk, v) in PYD_UNSPECIFIED:
                    exp = None
                    break
                if PYD_VALUES[tk] != v:
                    exp = False
                    break
        if exp is not None and got is not exp:
            bad.append(("pydantic:accept-iff", f"{where}: validate({d}) = {got} but the current definition (required {sorted(req)}, model fields without default {sorted(model_required)}, types {toks}) says {exp}"))
            break


def pyd_oracle(lines: list[str], seed_key: str) -> list[tuple[str, str]]:
    rng = common.make_rng(0, "C15-pyd:" + seed_key)
    bad: list[tuple[str, str]] = []
    w = PydWorld()
    for idx, ln in enumerate(lines):
        t = ln.split()
        op = t[0]
        before = [w.show_slot(i) for i in range(NSLOTS)]
        exp_exc = pyd_expected_exception(w, ln)
        origin_before = list(w.origin)
        st = w.apply(ln)
        after = [w.show_slot(i) for i in range(NSLOTS)]
        where = f"step {idx} `{ln}`"
        if st == "bad-slot":
            continue
        if exp_exc != "?":
            if exp_exc is None and st.startswith("E:"):
                bad.append((f"pydantic:unexpected-exception:{op}", f"{where} raised {st} although its documented preconditions hold"))
            elif exp_exc is not None and st != exp_exc:
                bad.append((f"pydantic:missing-exception:{op}", f"{where} answered {st}, documented: {exp_exc}"))
        allowed = {int(t[2])} if op in ("copy", "pickle") else {int(t[1])}
        tgt = next(iter(allowed))
        for i in range(NSLOTS):
            if i not in allowed and before[i] != after[i]:
                if op in PYD_MODEL_EDITS and w.origin[i] == origin_before[tgt]:
                    key = "pydantic:model-shared"
                    msg = f"{where} changed slot {i} which shares its model class ({w.origin[i]}) with the edited grammar: {before[i]} -> {after[i]}"
                else:
                    key, msg = f"pydantic:frame:{op}", f"{where} changed slot {i}: {before[i]} -> {after[i]}"
                bad.append((key, msg))
        if op in ("copy", "pickle") and st == "ok" and before[int(t[1])] != after[int(t[2])]:
            bad.append((f"pydantic:{op}-definition", f"{where}: result {after[int(t[2])]} differs from the source {before[int(t[1])]}"))
        if not bad:
            for i in range(NSLOTS):
                if w.slots[i] is not None:
                    b2: list[tuple[str, str]] = []
                    pyd_check_grammar(w.slots[i], rng, b2, f"{where} slot {i}")
                    # known finding only for its exact input class: somebody else edited the model class this
                    # grammar validates with (now or earlier: the model is rebuilt lazily, by whichever of the
                    # sharing grammars validates next, so the effect may show steps after the edit)
                    shared = w.foreign[i]
                    bad += [("pydantic:model-shared", m + f" (its model class {w.origin[i]} was edited through another grammar sharing it, by {shared})") if shared else (k, m) for k, m in b2]
        if [w.show_slot(i) for i in range(NSLOTS)] != after:
            bad.append(("pydantic:query-impure", f"{where}: validating changed the public state"))
        if bad:
            break
    return bad


def gen_pyd_case(rng: common.Rng) -> list[str]:
    """60% of the histories never make two grammars share a model class (no copy, each user model used once,
    no pickling of a grammar built on a user model): they are outside the known finding `pydantic:model-shared`."""
    lines: list[str] = []
    keys: dict[int, list[str]] = {}
    ext: dict[int, bool] = {}
    no_sharing = rng.chance(0.6)
    unused = ["M1", "M2"]

    def new(s: int) -> None:
        from harness import c15_models

        if no_sharing:
            m = rng.pick([*unused, "-"])
            if m in unused:
                unused.remove(m)
        else:
            m = rng.pick(["M1", "M2", "-", "M1"])
        lines.append(f"pnew {s} {m}")
        keys[s] = list(c15_models.SPEC[m]) if m != "-" else []
        ext[s] = m != "-"

    new(0)
    for _ in range(rng.pick([1, 2, 3, 4, 6, 8, 12])):
        s = rng.pick(sorted(keys))
        ks = keys[s]

        def ex() -> str:
            return rng.pick(ks) if ks and not rng.chance(0.08) else rng.pick(NAMES)

        op = rng.pick(["names"] * 3 + ["types"] * 3 + ["upd"] * 3 + ["restrict"] * 2 + ["rename"] * 3 + ["del"] * 3 + ["addns"] * 2
                      + ["clear"] + ["copy"] * 4 + ["pickle"] * 3 + ["setdef"] * 2 + ["deldef"] + ["pnew"] * 2
                      + ["defsnap"] * 2 + ["defrestore"] * 2 + ["defupdfrom"] * 2)
        if op == "names":
            ns = [n for n in rng.sample(NAMES, rng.randint(1, 2))]
            lines.append(f"names {s} {','.join(ns)} 0")
            keys[s] = ks + [n for n in ns if n not in ks]
        elif op == "types":
            ns = [n for n in rng.sample(NAMES, rng.randint(1, 2))]
            lines.append(f"types {s} " + ",".join(f"{n}={rng.pick(sorted(PYD_VALUES))}" for n in ns) + " 0")
            keys[s] = ks + [n for n in ns if n not in ks]
        elif op == "upd":
            src = rng.pick(sorted(keys))
            excl = [n for n in keys[src] if rng.chance(0.2)]
            lines.append(f"upd {s} {src} {','.join(excl) or '-'} 0")
            keys[s] = ks + [n for n in keys[src] if n not in ks and n not in excl]
        elif op == "restrict":
            ns = [n for n in ks if rng.chance(0.6)]
            lines.append(f"restrict {s} {','.join(ns) or '-'}")
            keys[s] = ns
        elif op == "rename":
            cur, new_ = ex(), rng.pick(NAMES + ["w", "v"])
            lines.append(f"rename {s} {cur} {new_}")
            if cur in ks:
                keys[s] = [n for n in ks if n != cur and n != new_] + [new_]
        elif op == "del":
            n = ex()
            lines.append(f"del {s} {n}")
            keys[s] = [x for x in ks if x != n]
        elif op == "addns":
            n = ex()
            lines.append(f"addns {s} {n} n")
            if n in ks and ":" not in n:
                keys[s] = [x for x in ks if x != n] + [f"n:{n}"]
        elif op == "clear":
            lines.append(f"clear {s}")
            keys[s] = []
            ext[s] = False
        elif op in ("copy", "pickle"):
            if no_sharing and (op == "copy" or ext.get(s)):
                continue
            d = rng.pick([i for i in range(NSLOTS) if i != s])
            lines.append(f"{op} {s} {d}")
            keys[d] = list(ks)
            ext[d] = ext.get(s, False)
        elif op == "setdef":
            lines.append(f"setdef {s} {ex()} {rng.randint(1, 9)}")
        elif op == "deldef":
            lines.append(f"deldef {s} {ex()}")
        elif op == "defsnap":
            lines.append(f"defsnap {s} {rng.randint(0, 1)}")
        elif op == "defrestore":
            lines.append(f"defrestore {s} {rng.randint(0, 1)} {rng.pick('ua')}")
        elif op == "defupdfrom":
            lines.append(f"defupdfrom {s} {rng.pick(sorted(keys))}")
        elif op == "pnew":
            free = [i for i in range(NSLOTS) if i not in keys]
            new(rng.pick(free) if free else rng.pick(sorted(keys)))
    return lines


def check_pydantic(res: Result, rng: common.Rng, n: int, deadline: float) -> None:
    corpus = []
    d = common.CORPUS_DIR / PID
    if d.is_dir():
        for p in sorted(d.glob("pydantic-*.json")):
            corpus.append(json.loads(p.read_text())["pydantic_case"])
    for k in range(len(corpus) + n):
        if time.time() > deadline:
            break
        lines = corpus[k] if k < len(corpus) else gen_pyd_case(rng)
        res.evaluations += 1
        res.count("pydantic-case")
        for ln in lines:
            res.count("pop=" + ln.split()[0])
        if len(lines) >= 3:
            res.nontrivial("pyd\n" + "\n".join(lines))
        bad = pyd_oracle(lines, "\n".join(lines))
        for key, msg in bad[:2]:
            if any(v.key == key for v in res.violations):
                continue

            def fails(ops: list[str], key=key) -> bool:
                return any(k2 == key for k2, _ in pyd_oracle(ops, "\n".join(ops)))

            small = common.shrink_list(lines, fails, budget=80) if len(lines) > 1 else lines
            msgs = [m for k2, m in pyd_oracle(small, "\n".join(small)) if k2 == key]
            res.violate("oracle", key, msgs[0] if msgs else msg, {"pydantic_case": small})


# --------------------------------------------------------------------------- shipped JSON grammar files


def sample_value_for(prop: dict[str, Any], rng: common.Rng) -> Any:
    from numpy import array

    t = prop.get("type")
    if isinstance(t, list):
        t = t[0]
    if "enum" in prop:
        return rng.pick(prop["enum"])
    if t == "array":
        n = prop.get("minItems", rng.randint(0, 3))
        return array([0.5 + i for i in range(n)])
    if t == "number":
        return 1.5
    if t == "integer":
        return 3
    if t == "string":
        return "http://a.b/c" if prop.get("format") == "uri" else "a"
    if t == "boolean":
        return True
    if t == "object":
        return {}
    return None


def check_shipped_files(res: Result, rng: common.Rng) -> None:
    from gemseo.core.grammars.json_grammar import JSONGrammar

    files = sorted((common.REPO / "src" / "gemseo").rglob("*.json"))
    for f in files:
        try:
            schema = json.loads(f.read_text())
        except Exception:  # noqa: BLE001
            continue
        if not isinstance(schema, dict) or "properties" not in schema:
            continue
        res.evaluations += 1
        res.count("shipped-file")
        rel = str(f.relative_to(common.REPO))
        bad: list[tuple[str, str]] = []
        for mode in ("load", "pickle", "copy"):
            g = JSONGrammar("g", file_path=f)
            if mode == "pickle":
                g.schema  # noqa: B018
                g = pickle.loads(pickle.dumps(g))
            elif mode == "copy":
                accepts(g, {})
                g = g.copy()
            if set(g.required_names) != set(schema.get("required", [])):
                bad.append(("file-required", f"{rel} ({mode}): required names {sorted(g.required_names)} != the file's {sorted(schema.get('required', []))}"))
            if set(g.keys()) != set(schema["properties"]):
                bad.append(("file-properties", f"{rel} ({mode}): keys differ from the file's properties"))
            good = {k: sample_value_for(p, rng) for k, p in schema["properties"].items()}
            datas = [good, {}]
            for k in list(good)[:6]:
                d = dict(good)
                del d[k]
                datas.append(d)
                d = dict(good)
                d[k] = rng.pick(["a", 3, 1.5, None, [1.5], ["a"], True])
                datas.append(d)
            sj = json.loads(g.to_json())
            ref = ref_validator(sj)
            ref_file = ref_validator({k: v for k, v in schema.items() if k != "id"})
            for d in datas:
                got = accepts(g, d)
                r = bool(ref.is_valid(cast_ref(d)))
                r2 = bool(ref_file.is_valid(cast_ref(d)))
                if got is not r or got is not r2:
                    bad.append(("file-ref-validator", f"{rel} ({mode}): validate({ {k: repr(v)[:20] for k, v in d.items()} }) = {got}, reference on to_json() = {r}, reference on the file = {r2}"))
                    break
            check_grammar(g, rng, bad, f"{rel} ({mode})", datas=[])
        for key, msg in bad[:2]:
            res.violate("oracle", key, msg, {"file": rel})


# --------------------------------------------------------------------------- run / replay


def load_corpus() -> list[dict[str, Any]]:
    d = common.CORPUS_DIR / PID
    out = []
    if d.is_dir():
        for p in sorted(d.glob("*.json")):
            data = json.loads(p.read_text())
            if "case" in data:
                out.append(data["case"])
    return out


def run(ctx) -> Result:
    common.quiet_gemseo()
    res = Result(PID)
    res.rule = (
        "random edit histories (2-20 edits + interleaved read-only queries) over 4 slots of SimpleGrammar/JSONGrammar: update (grammar, "
        "excluded, merge), update_from_names/types/data/schema, restrict_to, rename_element, del, add_namespace, clear, copy, pickle, "
        "defaults and required_names edits; a case is non-trivial when it has >= 3 edits; distinct by protocol text"
    )
    res.assumptions = [
        "update_from_schema is only given schemas whose `required` names are among their `properties`",
        "SimpleGrammar.update(JSONGrammar)/to_simple_grammar of JSON types without a unique Python counterpart is compared with the model only (probe stream)",
        "data values never contain integral floats (draft-dependent meaning of `integer`)",
    ]
    rng = ctx.rng
    corpus = load_corpus()
    check_cases(res, corpus, rng, ctx.deadline)
    res.count("corpus", len(corpus))
    check_shipped_files(res, rng)
    check_pydantic(res, common.make_rng(ctx.seed, "C15-pydantic"), 1500 if ctx.thorough else 300, ctx.deadline)
    n = 6000 if ctx.thorough else 1200
    soft_deadline = min(ctx.deadline, ctx.t0 + (900 if ctx.thorough else 100))
    done = 0
    while done < n and time.time() < soft_deadline:
        batch = [gen_case(rng) for _ in range(min(250, n - done))]
        check_cases(res, batch, rng, soft_deadline)
        done += len(batch)
    res.extra["generated_cases"] = done
    if ctx.thorough:
        # exhaustive small scope: every sequence of <= 3 operations over a reduced alphabet on two slots,
        # for both grammar classes (operations a class does not have are skipped for it)
        import itertools

        alphabet = [
            "names 0 a,b 0", "types 0 a=int,c=nd 0", "data 0 a=s 1", "schema 0 a=S+A[N] a 1", "reqdisc 0 a", "setdef 0 a 1",
            "del 0 a", "rename 0 a b", "restrict 0 a", "addns 0 a n", "copy 0 1", "pickle 0 1", "del 1 a", "upd 1 0 - 0",
            "val 0 a=nd:ff", "qschema 0", "clear 0",
        ]
        ex: list[dict[str, Any]] = []
        for kind in ("J", "S"):
            alpha = [a for a in alphabet if kind == "J" or not (a.startswith(("schema", "qschema")) or a.endswith(" 1") and a.startswith("data"))]
            for k in (1, 2, 3):
                for combo in itertools.product(alpha, repeat=k):
                    ex.append({"ops": ["reset", f"new 0 {kind}", "names 0 a 0", *combo, "val 0 a=nd:ff", "val 1 -"], "probe_lines": []})
        for i in range(0, len(ex), 500):
            if time.time() > ctx.deadline:
                res.count("exhaustive-skipped-deadline", len(ex) - i)
                break
            check_cases(res, ex[i : i + 500], rng, ctx.deadline)
        res.count("exhaustive-small-scope", len(ex))
        res.extra["exhaustive_small_scope"] = f"{len(ex)} sequences: all sequences of <= 3 operations over {len(alphabet)} operations x 2 classes"
    return res


def replay(path: str) -> int:
    common.quiet_gemseo()
    data = json.loads(Path(path).read_text())
    rp = data.get("replay", data)
    if "file" in rp:
        res = Result(PID)
        check_shipped_files(res, common.make_rng(0, "replay"))
        for v in res.violations:
            print("ORACLE FAILS:", v.key, v.what)
        return 1 if res.violations else 0
    if "pydantic_case" in rp:
        bad = pyd_oracle(rp["pydantic_case"], "\n".join(rp["pydantic_case"]))
        w = PydWorld()
        for ln in rp["pydantic_case"]:
            print(f"> {ln}\n   impl : {w.apply(ln)}|" + "|".join(w.show_slot(i) for i in range(NSLOTS)))
        for k, msg in bad:
            print("ORACLE FAILS:", k, msg)
        return 1 if bad else 0
    case = rp["case"]
    case.setdefault("probe", False)
    impl, bad = oracle_case(case)
    model = common.run_lean_driver(PID, case["ops"])
    for ln, a, m in zip(case["ops"], impl, model):
        print(f"> {ln}\n   impl : {a}\n   model: {m}" + ("" if a == m else "   <-- differ"))
    for k, msg in bad:
        print("ORACLE FAILS:", k, msg)
    return 1 if bad else 0
